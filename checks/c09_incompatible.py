"""C09 - reusing a spec on incompatible data fails loudly and never reshapes columns.

Data-fault configuration of the spec-replay machine: the follow-up data channel
is an unreliable peer.  Faulty follow-ups (kind flips, unseen levels, missing
levels) are interleaved with clean ones and with restarts; the response to each
fault is judged against the table in DESIGN 4, and every later clean follow-up
must still equal the reference (bounded recovery: the very next clean call).
"""

from __future__ import annotations

from checks import specmachine as sm

PROPERTY = "C09"

TIERS = {
    "quick": {"runs": 2400, "chunk": 75, "budget_s": 75, "run_timeout_s": 300, "shrink_s": 40, "chunk_timeout_s": 900},
    "thorough": {"runs": 60000, "chunk": 400, "budget_s": 900, "run_timeout_s": 300, "shrink_s": 120, "chunk_timeout_s": 2700},
}

RULE = (
    "Same machine as C04 with the data channel faulted: in each history about a quarter of the follow-ups carry a data fault "
    "(cat_to_num: categorical-at-fit column arrives as floats; num_to_text: numeric-at-fit column arrives as non-numeric text in "
    "object / pandas-default-str / category dtype; level_gain: some surviving rows carry an unseen level; level loss: follow-ups "
    "drawn to miss whole levels). Responses are judged per fault (FactorEncodingError / FormulaMaterializationError and no matrix; "
    "or no exception + unchanged column names + DataMismatchWarning + untouched other rows) and every clean follow-up after a "
    "fault, on the live spec and on restarted copies, must equal the one-row reference unless a never-faulted pristine clone "
    "deviates in the same way. Signature as in C04 plus (fault kind, how the variable is used). Non-trivial = a clean follow-up "
    "served by a handle whose previous event was a fault or a restart."
)

COMPONENTS = {
    "real_code": ["all of formulaic", "pandas, numpy, scipy.sparse, pyarrow, narwhals", "pickle / copy", "warnings machinery (record=True, 'always')"],
    "stubs": ["row universe / data generators", "fault transformer of follow-up frames", "one-row reference model on a private pickled clone"],
    "fault_kinds": "cat_to_num, num_to_text, level_gain (data faults, counted when the faulty call was actually made); restart:* as in C04",
}

ASSUMPTIONS = [
    "replacement text is never numeric-looking; hashed() factors are excluded from warning expectations",
    "when a flipped variable is used both in an inferred-kind factor and inside a numeric python factor only FormulaMaterializationError (not its subclass) is demanded, because which factor fails first depends on set iteration order",
    "a variable used only under C()/hashed() is never expected to raise on a dtype flip: that is a level change",
    "clean-follow-up mismatches that a never-faulted clone reproduces are C04's subject and are not reported here",
    "a clean batch is sampling evidence, not proof",
]


def generate(run_seed: int, tier: str) -> dict:
    return sm.generate(run_seed, tier, faults=True)


def execute(scenario: dict, env) -> dict:
    return sm.execute(scenario, env, prop="C09")




def worker_setup(env, replay_meta=None) -> None:
    """Start the cross-process helper: a template interpreter under ANOTHER hash seed (forks per request)."""
    from sim import core
    from sim.driver import VERIF
    from sim.oracle import OracleClient

    if replay_meta and replay_meta.get("xproc_hashseed"):
        h2 = str(replay_meta["xproc_hashseed"])
    else:
        h2 = str(core.h64("xproc-hashseed", env.chunk_seed) % 4294967295)
        if h2 == env.hashseed:
            h2 = str((int(h2) + 1) % 4294967295)
    env.resources["xproc"] = OracleClient("checks.specmachine", h2, str(VERIF))
    env.xproc_hashseed = h2


def replay_meta(env) -> dict:
    return {"xproc_hashseed": env.xproc_hashseed}


reduce = sm.reduce
simplify = sm.simplify
features = sm.features

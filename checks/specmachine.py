"""The spec-replay machine shared by C04 (fault-free configuration) and C09
(data-fault configuration).

A fitted ModelSpec is treated as a small durable state machine: *fit* writes
structure / transform state / encoder state; every later call must only read
them.  A run is a seeded history over the spec and objects derived from it
(pickle "restarts", copies, update()/subset() siblings, leaves of a structured
spec): follow-ups on arbitrary sub-multisets of the training domain, restarts
at arbitrary points and - in the C09 configuration - follow-ups whose data
violates what was recorded.

Reference model (DESIGN 3): ``ref[row id] = clone.get_model_matrix(one-row
frame)`` on a pickled clone taken right after the fit, so the expected result
of any clean follow-up is the vertical concatenation of the blocks of its rows.
"""

from __future__ import annotations

import copy
import pickle
import warnings
from typing import Any, Optional

from sim import core, world
from sim.driver import import_formulaic_checked

RTOL = 1e-9


class Violation(Exception):
    def __init__(self, clause: str, detail: Any):
        self.clause = clause
        self.detail = detail


# =============================================================================
# generation
# =============================================================================


def generate(run_seed: int, tier: str, *, faults: bool) -> dict:
    rng = core.stream(run_seed, "specmachine")
    swarm = core.stream(run_seed, "swarm")
    rich = swarm.random() < 0.85
    u = world.gen_universe(rng, ticked_p=0.25 if swarm.random() < 0.5 else 0.05)
    container = core.weighted(rng, [("pandas", 7), ("recarray", 1.2), ("pandas_sub", 1.2), ("arrow", 1.5)])
    if container == "recarray":
        u["cols"].pop("N", None)  # a record array has no categorical dtype: numeric categories would simply be a numeric column
        for c in u["cols"].values():
            if c["kind"] in ("text_object", "text_default", "category"):
                # an all-null object field of a record array is read back as float NaN, a mixed one keeps None: hashed() would
                # stringify the same null differently in one-row and multi-row frames (hashed()/nulls is C06's hole): not generated
                c["null_rate"] = 0.0
    f = world.gen_formula(rng, u, rich=rich, structured_p=swarm.choice([0.0, 0.25, 0.5]), max_terms=swarm.choice([2, 3, 5]),
                          force_ticked=True)
    n = u["n"]
    ntrain = rng.randint(min(8, n), n)
    base = list(range(min(6, n))) if rng.random() < 0.75 else []
    rest = [i for i in range(n) if i not in base]
    rng.shuffle(rest)
    train = base + rest[: max(0, ntrain - len(base))]
    rng.shuffle(train)
    if rng.random() < 0.2:
        train = train + [rng.choice(train) for _ in range(rng.randint(1, 4))]
    # nulls under a mean-based stateful transform give a NaN mean and legitimately drop every row: keep such
    # rows out of the *training* set (mostly); they stay in the universe, so follow-ups still meet them
    mb = sorted({v for a in f["atoms"] if a.get("mean_based") for v in a["vars"]})
    if mb and rng.random() < 0.95:
        dfu = world.universe_frame(u)
        nullrow = dfu[mb].isna().any(axis=1).to_numpy()
        kept = [i for i in train if not nullrow[i]]
        if len(kept) >= 4:
            train = kept
    if container == "arrow":
        # third-party quirk, not formulaic's: numpy conversion of an arrow *dictionary* array maps a null entry to a
        # real category (np.array(narwhals_series) of [None] with categories [hi, lo] gives ['lo']), so hashed() would
        # see a level where the data has a null.  Keep nulls out of category-dtype columns on the arrow path.
        for c in u["cols"].values():
            if c["kind"] == "category":
                c["null_rate"] = 0.0
    opts: dict[str, Any] = {"output": core.weighted(rng, [("pandas", 5), ("numpy", 2), ("sparse", 2)]),
                            "ensure_full_rank": rng.random() < 0.8}
    if rng.random() < 0.1:
        opts["cluster_by"] = "numerical_factors"
    if rng.random() < 0.08:
        opts["na_action"] = "ignore"
    dom = world.training_domain(u, f, train)
    structured = f["form"] != "simple"
    vars_used = world.variables_of(f)
    cat_vars = [v for v in vars_used if u["cols"][v]["kind"] in ("text_object", "text_default", "category")]
    num_vars = [v for v in vars_used if u["cols"][v]["kind"] in ("float", "int")]

    f2 = None
    train2 = None
    if not structured and rng.random() < 0.35:
        f2 = world.gen_formula(rng, u, rich=rich, structured_p=0.0, max_terms=2, force_ticked=False)
        shared = [a for a in f["atoms"] if a.get("stateful") and not a.get("ctx")]
        if shared and isinstance(f2["spec"], str) and rng.random() < 0.7:
            # the two formulas have a factor in common (so the two fits record state under the same key) ...
            a_ = rng.choice(shared)
            f2["spec"] += " + " + a_["expr"]
            f2["atoms"].append(a_)
        if rng.random() < 0.6:
            # ... and are fitted on different rows
            k2 = rng.randint(min(8, n), n)
            train2 = sorted(set(rng.sample(range(n), k2)) | set(range(min(6, n))))
            rng.shuffle(train2)
    ops: list[dict] = []
    handles = [{"id": 0, "kind": "root"}]
    nops = rng.randint(6, 22)
    entries = ["spec.gmm", "spec.gmm", "spec_sugar", "mm_sugar"]

    def sigma() -> list[int]:
        if not dom:
            return []
        mode = core.weighted(rng, [("subset", 4), ("dups", 3), ("single", 1), ("all", 1), ("miss_level", 2)])
        if mode == "single":
            return [rng.choice(dom)]
        if mode == "all":
            s = dom[:]
            rng.shuffle(s)
            return s
        if mode == "subset":
            k = rng.randint(1, len(dom))
            return rng.sample(dom, k)
        if mode == "miss_level" and cat_vars:
            v = rng.choice(cat_vars)
            df = world.universe_frame(u)
            lv = rng.choice(u["cols"][v]["levels"])
            s = [i for i in dom if df[v].iloc[i] != lv]
            rng.shuffle(s)
            return s[: rng.randint(1, max(1, len(s)))] if s else [rng.choice(dom)]
        return [rng.choice(dom) for _ in range(rng.randint(1, min(80, 2 * len(dom))))]

    def gen_fault() -> Optional[dict]:
        if rng.random() < 0.1:
            return {"kind": "interrupt", "var": None, "at": rng.randint(1, 3500)}
        kinds = []
        if cat_vars:
            kinds += [("cat_to_num", 3), ("level_gain", 4)]
        if num_vars:
            kinds += [("num_to_text", 3)]
        if "F" in vars_used:
            kinds += [("level_alias", 2)]
        k_forced_only = "k" in vars_used and all(a["cls"] == "C" for a in f["atoms"] if "k" in a["vars"])
        if k_forced_only:
            kinds += [("level_alias_k", 1.5)]
        if not kinds:
            return None
        k = core.weighted(rng, kinds)
        if k == "level_alias":
            return {"kind": k, "var": "F", "as": rng.choice(["int", "float"])}
        if k == "level_alias_k":
            return {"kind": "level_alias", "var": "k", "as": "bool"}
        if k == "cat_to_num":
            f_ = {"kind": k, "var": rng.choice(cat_vars)}
            if rng.random() < 0.15:
                f_["allnull"] = True
            return f_
        if k == "num_to_text":
            f_ = {"kind": k, "var": rng.choice(num_vars), "dtype": rng.choice(["object", "str", "category", "arrow_str", "arrow_dict"])}
            if rng.random() < 0.15:
                f_["allnull"] = True
            return f_
        f_ = {"kind": k, "var": rng.choice(cat_vars), "salt": rng.randrange(3), "level": rng.choice(["NEW", "zz", "a ", "", "NEW", 0])}
        if rng.random() < 0.2:
            f_["level2"] = rng.choice([7, "east", -1.5])  # a second unseen value, possibly not comparable with the first
        return f_

    for _ in range(nops):
        kind = core.weighted(rng, [("follow", 10), ("restart", 3), ("subset", 1 if not structured else 0), ("leaf", 1.5 if structured else 0),
                                   ("refit", 1), ("fault", 5 if faults else 0), ("combo", 1.2 if f2 is not None else 0)])
        if kind == "combo":
            h = rng.choice([x for x in handles if x["kind"] in ("root", "restart")])
            new = {"id": len(handles), "kind": "combo", "of": h["id"]}
            handles.append(new)
            ops.append({"op": "combo", "h": h["id"], "new": new["id"], "staged": rng.random() < 0.4, "ids": sigma()[:4]})
            continue
        if kind in ("follow", "fault"):
            pool = handles if kind == "follow" else [h for h in handles if h["kind"] in ("root", "restart", "subset", "combo")]
            h = rng.choice(pool)
            op = {"op": "follow", "h": h["id"], "ids": sigma(), "entry": rng.choice(entries),
                  "index": core.weighted(rng, [("rid", 3), ("range", 2), ("str", 1)])}
            if rng.random() < 0.2:
                op["recat"] = rng.randrange(1000)
            if rng.random() < 0.15:
                op["int_as_float"] = True
            if kind == "fault":
                fl = gen_fault()
                if fl is None:
                    continue
                op["fault"] = fl
                if rng.random() < 0.3:
                    op["retry"] = True
            ops.append(op)
        elif kind == "restart":
            h = rng.choice(handles)
            how = rng.choice(["pickle2", "pickle3", "pickle4", "pickle5", "pickle5", "copy", "deepcopy", "mm_pickle", "mm_copy", "mm_deepcopy", "update"])
            if how.startswith("mm_") and h["id"] != 0:
                how = "pickle5"
            if rng.random() < 0.22:
                how = "xproc"  # pickled here, restored in ANOTHER interpreter (other hash seed): the real life of a pickled spec
            new = {"id": len(handles), "kind": "restart" if h["kind"] in ("root", "restart") else h["kind"], "of": h["id"]}
            handles.append(new)
            ops.append({"op": "restart", "h": h["id"], "new": new["id"], "how": how, "ids": sigma(), "pick": [rng.random() < 0.6 for _ in range(12)]})
        elif kind == "subset":
            h = rng.choice([x for x in handles if x["kind"] in ("root", "restart")])
            new = {"id": len(handles), "kind": "subset", "of": h["id"]}
            handles.append(new)
            ops.append({"op": "subset", "h": h["id"], "new": new["id"], "pick": [rng.random() < 0.6 for _ in range(12)], "shuffle": rng.randrange(1000)})
        elif kind == "leaf":
            h = rng.choice([x for x in handles if x["kind"] in ("root", "restart")])
            new = {"id": len(handles), "kind": "leaf", "of": h["id"]}
            handles.append(new)
            ops.append({"op": "leaf", "h": h["id"], "new": new["id"], "which": rng.randrange(8)})
        elif kind == "refit":
            ops.append({"op": "refit", "h": rng.choice([x for x in handles if x["kind"] in ("root", "restart")])["id"]})
    used = world.variables_of(f)
    train_keep = used if rng.random() < 0.3 else None  # the training frame carries only the variables the formula uses
    for o in ops:
        if o["op"] == "follow" and rng.random() < 0.3:
            o["only_used_cols"] = True
    if f2 is not None:
        used = list(dict.fromkeys(used + world.variables_of(f2)))
        if train_keep is not None:
            train_keep = used
        mb2 = sorted({v for a in f2["atoms"] if a.get("mean_based") for v in a["vars"]})
        if mb2:
            # the second fit, too, is (mostly) trained on rows without nulls under its mean-based transforms
            nullrow2 = world.universe_frame(u)[mb2].isna().any(axis=1).to_numpy()
            base2 = train2 if train2 is not None else train
            kept2 = [i for i in base2 if not nullrow2[i]]
            if len(kept2) >= 4 and len(kept2) != len(base2):
                train2 = kept2
        dom = [i for i in dom if i in set(world.training_domain(u, f2, train2 if train2 is not None else train))]
        for o in ops:
            if "ids" in o:
                o["ids"] = [i for i in o["ids"] if i in set(dom)]
    return {"universe": u, "formula": f, "formula2": f2, "train2": train2, "train": train, "dom": dom, "container": container, "train_keep": train_keep, "used_vars": used,
            "train_index": core.weighted(rng, [("rid", 3), ("range", 2), ("str", 1)]), "opts": opts,
            "np_seed": rng.getrandbits(31), "ops": ops, "faults_enabled": faults}


# =============================================================================
# canonical forms
# =============================================================================


def walk(obj: Any, Structured: Any, path: tuple = ()) -> list:
    """[(path, leaf)] of a Structured / tuple / plain object, in dictionary order."""
    if isinstance(obj, Structured):
        out = []
        for k, v in obj._to_dict(recurse=False).items():
            out.extend(walk(v, Structured, path + (k,)))
        return out
    if isinstance(obj, tuple):
        out = []
        for i, v in enumerate(obj):
            out.extend(walk(v, Structured, path + (i,)))
        return out
    return [(path, obj)]


def canon_matrix(m: Any) -> dict:
    import numpy as np
    import pandas as pd
    import scipy.sparse as sp

    spec = getattr(m, "model_spec", None)
    raw = getattr(m, "__wrapped__", m)
    index = None
    if isinstance(raw, pd.DataFrame):
        names = [str(c) for c in raw.columns]
        arr = raw.to_numpy()
        index = [repr(i) for i in raw.index]
    elif sp.issparse(raw):
        arr = raw.toarray()
        names = list(spec.column_names) if spec is not None else []
    elif isinstance(raw, np.ndarray):
        arr = raw
        names = list(spec.column_names) if spec is not None else []
    else:
        try:
            pdf = raw.to_pandas()
        except Exception:
            import narwhals.stable.v1 as nw

            pdf = nw.from_native(raw, eager_only=True).to_pandas()
        names = [str(c) for c in pdf.columns]
        arr = pdf.to_numpy()
    if arr.ndim == 1:
        arr = arr.reshape((-1, 1))
    try:
        arr = arr.astype(float)
    except (TypeError, ValueError):
        arr = arr.astype(object)
    return {"names": names, "arr": arr, "index": index, "spec_names": list(spec.column_names) if spec is not None else None}


def canon(mm: Any, Structured: Any) -> list:
    return [(path, canon_matrix(leaf)) for path, leaf in walk(mm, Structured)]


def close(a: Any, b: Any) -> bool:
    import numpy as np

    if a.shape != b.shape:
        return False
    if a.dtype == object or b.dtype == object:
        return bool(np.all((a == b) | ((a != a) & (b != b)))) if a.size else True
    if a.size == 0:
        return True
    with np.errstate(invalid="ignore"):
        ok = (np.abs(a - b) <= RTOL * (1 + np.abs(b))) | (np.isnan(a) & np.isnan(b)) | (a == b)
    return bool(np.all(ok))


def arr_digest(c: list) -> list:
    import hashlib
    import numpy as np

    out = []
    for path, m in c:
        a = m["arr"]
        if a.dtype != object:
            a = np.ascontiguousarray(np.round(a.astype(float), 7) + 0.0)
            h = hashlib.md5(a.tobytes()).hexdigest()[:12]
        else:
            h = hashlib.md5(repr(a.tolist()).encode()).hexdigest()[:12]
        out.append([list(path), m["names"], list(m["arr"].shape), h])
    return out


def brief(c: list) -> Any:
    return [[list(p), m["names"], m["arr"].shape, m["arr"][:3].tolist()] for p, m in c]


# =============================================================================
# execution
# =============================================================================


class SubsetMismatch(Exception):
    pass


class ComboRef:
    """Reference for specs of SEPARATE fits that the caller put into one ModelSpecs container: every part must replay its
    own recorded state, i.e. give the rows its own spec gives when used alone."""

    def __init__(self, parts: list):
        self.parts = parts
        self.calls = 0

    def present(self, rid: int) -> bool:
        for _, ref in self.parts:
            b = ref.block(rid)
            if isinstance(b, Exception) or b[0][1]["arr"].shape[0] != 1:
                return False
        return True

    def block(self, rid: int) -> Any:
        out = []
        for key, ref in self.parts:
            b = ref.block(rid)
            if isinstance(b, Exception):
                return b
            out.append(((key,), b[0][1]))
        return out

    expected = None  # bound below


class Ref:
    """Row-level reference model built from one-row calls on a private clone."""

    def __init__(self, clone: Any, sc: dict, Structured: Any, subset_names: Optional[list] = None, parent: Optional["Ref"] = None):
        self.clone = clone
        self.sc = sc
        self.S = Structured
        self.cache: dict[int, Any] = {}
        self.subset_names = subset_names
        self.parent = parent
        self.calls = 0

    def block(self, rid: int) -> Any:
        """list[(path, {'names','arr'})] for one row, or an Exception instance."""
        import numpy as np

        if rid in self.cache:
            return self.cache[rid]
        frame = world.take(self.sc["universe"], [rid], container=self.sc["container"], index="rid")
        np.random.seed(12345)
        self.calls += 1
        try:
            with warnings.catch_warnings():
                warnings.simplefilter("ignore")
                mm = self.clone.get_model_matrix(frame, context=world.user_context())
            out = canon(mm, self.S)
        except Exception as e:  # noqa: BLE001
            out = e
        if self.parent is not None and not isinstance(out, Exception):
            # a subset spec must give exactly the parent's columns of the same names (rows the parent keeps)
            pb = self.parent.block(rid)
            if not isinstance(pb, Exception) and pb[0][1]["arr"].shape[0] == 1 and out[0][1]["arr"].shape[0] == 1:
                pm, om = pb[0][1], out[0][1]
                try:
                    cols = [pm["names"].index(nm) for nm in om["names"]]
                    same = close(om["arr"], pm["arr"][:, cols])
                except ValueError:
                    same = False
                if not same:
                    out = SubsetMismatch(rid, om["names"], pm["names"])
        self.cache[rid] = out
        return out

    def expected(self, ids: list[int]) -> Any:
        import numpy as np

        blocks = []
        for r in ids:
            b = self.block(r)
            if isinstance(b, Exception):
                return b
            blocks.append(b)
        if not blocks:
            return None
        out = []
        for li, (path, m0) in enumerate(blocks[0]):
            arrs = [b[li][1]["arr"] for b in blocks]
            width = m0["arr"].shape[1]
            kinds = {a.dtype == object for a in arrs}
            if True in kinds:
                arrs = [a.astype(object) for a in arrs]
            out.append((path, {"names": m0["names"], "arr": np.vstack(arrs) if arrs else np.empty((0, width)), "present": [b[li][1]["arr"].shape[0] for b in blocks]}))
        return out


ComboRef.expected = Ref.expected


def bump(stats: dict, kind: str, key: str, n: int = 1) -> None:
    stats[kind][key] = stats[kind].get(key, 0) + n


def classify_var(atoms: list, v: str) -> dict:
    inf = any(v in a["vars"] and a["cls"] in ("lookup", "ident") for a in atoms)
    nump = any(v in a["vars"] and a["cls"] == "num_py" for a in atoms)
    forced = any(v in a["vars"] and a["cls"] in ("C", "hashed") for a in atoms)
    nonhashed_cat = any(v in a["vars"] and a["kind"] == "cat" and a["cls"] != "hashed" for a in atoms)
    inferred_cat = any(v in a["vars"] and a["kind"] == "cat" and a["cls"] in ("lookup", "ident") for a in atoms)
    return {"inf": inf, "num_py": nump, "forced": forced, "nonhashed_cat": nonhashed_cat, "inferred_cat": inferred_cat}


def execute(scenario: dict, env: Any, *, prop: str) -> dict:
    import_formulaic_checked()
    import numpy as np

    import formulaic
    from formulaic import ModelSpec, ModelSpecs, model_matrix
    from formulaic.errors import DataMismatchWarning, FactorEncodingError, FormulaMaterializationError
    from formulaic.utils.structured import Structured

    sc = scenario
    u = sc["universe"]
    log: list = []
    stats: dict = {"ops": 0, "faults": {}, "probes": {}, "signatures": [], "nontrivial": [], "extra": {}}
    state = {"step": -1}
    sig: list = [sc["formula"]["form"], sc["container"], sc["opts"]["output"]]
    violation = None
    atoms = sc["formula"]["atoms"]

    def seed_np(step: int) -> None:
        np.random.seed(core.h64("np", sc["np_seed"], step) % (2**32))

    def frame(ids: list[int], index: str, fault: Optional[dict] = None, recat: Optional[int] = None, keep: Optional[list] = None, iaf: bool = False) -> Any:
        return world.take(u, ids, container=sc["container"], index=index, mutate=fault, recat=recat, keep_cols=keep, int_as_float=iaf)

    def call(spec_or_mm: Any, entry: str, data: Any, mm_for_sugar: Any = None) -> Any:
        if entry == "spec.gmm":
            return spec_or_mm.get_model_matrix(data, context=world.user_context())
        if entry == "spec_sugar":
            return model_matrix(spec_or_mm, data, context=world.user_context())
        if entry == "mm_sugar":
            return model_matrix(mm_for_sugar if mm_for_sugar is not None else spec_or_mm, data, context=world.user_context())
        raise ValueError(entry)

    try:
        # ------------------------------------------------------------------ fit
        seed_np(-1)
        tframe = frame(sc["train"], sc["train_index"], keep=sc.get("train_keep"))
        try:
            with warnings.catch_warnings():
                warnings.simplefilter("ignore")
                mm0 = model_matrix(world.spec_to_python(sc["formula"]["spec"]), tframe, context=world.user_context(), **sc["opts"])
            c0 = canon(mm0, Structured)
            if any((m["arr"].dtype != object and not np.all(np.isfinite(m["arr"]))) for _, m in c0):
                raise ArithmeticError("non-finite training matrix")
            if any(m["arr"].shape[0] == 0 for _, m in c0):
                raise ArithmeticError("every training row was dropped")
            if any(m["arr"].shape[1] == 0 for _, m in c0):
                # e.g. a NaN centering constraint recorded from one null: every row dropped, no levels, no columns
                raise ArithmeticError("a part of the training matrix has no columns")
        except Exception as e:  # degenerate fit: outside the property's quantifier
            bump(stats, "extra", "degenerate_fit")
            bump(stats, "extra", "degenerate_fit:" + type(e).__name__)
            stats["sample"] = {"formula": sc["formula"]["spec"], "degenerate": repr(e)[:200]}
            return {"violation": None, "log": [["degenerate", type(e).__name__]], "stats": stats}
        spec0 = mm0.model_spec
        clone0 = pickle.loads(pickle.dumps(spec0))
        pristine_blob = pickle.dumps(spec0)
        root_ref = Ref(clone0, sc, Structured)
        handles: dict[int, dict] = {0: {"spec": spec0, "mm": mm0, "ref": root_ref, "kind": "root", "depth": 0, "born": -1, "names": [m["names"] for _, m in c0]}}
        log.append(["fit", arr_digest(c0)])
        if any(m["arr"].shape[0] == 0 for _, m in c0):
            bump(stats, "probes", "fit_dropped_every_row")
        spec1 = None
        if sc.get("formula2"):
            try:
                with warnings.catch_warnings():
                    warnings.simplefilter("ignore")
                    tframe2 = frame(sc["train2"], sc["train_index"], keep=sc.get("train_keep")) if sc.get("train2") else tframe
                    mm1 = model_matrix(world.spec_to_python(sc["formula2"]["spec"]), tframe2, context=world.user_context(), **sc["opts"])
                c1 = canon(mm1, Structured)
                if any(m["arr"].dtype == object or not np.all(np.isfinite(m["arr"])) or m["arr"].shape[0] == 0 or m["arr"].shape[1] == 0 for _, m in c1):
                    raise ArithmeticError("degenerate second fit")
                spec1, names1 = mm1.model_spec, [m["names"] for _, m in c1]
                ref1 = Ref(pickle.loads(pickle.dumps(spec1)), sc, Structured)
            except Exception:  # noqa: BLE001
                spec1 = None
                bump(stats, "extra", "degenerate_second_fit")
        faults_seen = 0
        last_touch: dict[int, list] = {}

        def check_follow(h: dict, ids: list[int], got: list, clause_prefix: str, skip_rows: Optional[set] = None) -> None:
            exp = h["ref"].expected(ids)
            if isinstance(exp, SubsetMismatch):
                raise Violation(f"{clause_prefix}:subset-columns-differ-from-parent", {"args": repr(exp.args)[:400]})
            if isinstance(exp, Exception):
                raise Violation(f"{clause_prefix}:row-dependence", {"why": "one-row reference call raised but the multi-row call returned", "error": repr(exp)[:300], "ids": ids})
            if exp is None:
                return
            if len(exp) != len(got):
                raise Violation(f"{clause_prefix}:columns", {"why": "different number of parts", "got": len(got), "expected": len(exp)})
            for (pe, me), (pg, mg), names0 in zip(exp, got, h["names"]):
                if mg["names"] != names0 or (mg["spec_names"] is not None and mg["spec_names"] != names0):
                    raise Violation(f"{clause_prefix}:columns", {"part": list(pg), "got": mg["names"], "spec_names": mg["spec_names"], "recorded": names0})
                a, b = mg["arr"], me["arr"]
                if skip_rows:
                    # positions (in the follow-up frame) excluded from the row comparison; map them to output rows
                    present = me["present"]
                    keep_out, pos = [], 0
                    for j, p in enumerate(present):
                        for _ in range(p):
                            if j not in skip_rows:
                                keep_out.append(pos)
                            pos += 1
                    if a.shape[0] != b.shape[0]:
                        raise Violation(f"{clause_prefix}:rows", {"part": list(pg), "got_shape": a.shape, "expected_shape": b.shape, "ids": ids})
                    a, b = a[keep_out], b[keep_out]
                if not close(a, b):
                    bad = None
                    if a.shape == b.shape and a.dtype != object and b.dtype != object:
                        with np.errstate(invalid="ignore"):
                            d = ~((np.abs(a - b) <= RTOL * (1 + np.abs(b))) | (np.isnan(a) & np.isnan(b)))
                        rows = np.flatnonzero(d.any(axis=1))[:3].tolist()
                        bad = {"rows": rows, "got": a[rows].tolist(), "expected": b[rows].tolist()}
                    raise Violation(f"{clause_prefix}:rows", {"part": list(pg), "names": mg["names"], "got_shape": a.shape, "expected_shape": b.shape, "first_bad": bad, "ids": ids[:20]})

        # first step: (i) the spec reproduces the training matrix
        seed_np(-2)
        with warnings.catch_warnings():
            warnings.simplefilter("ignore")
            try:
                again = canon(spec0.get_model_matrix(tframe, context=world.user_context()), Structured)
            except Exception as e:  # noqa: BLE001
                if prop == "C09":
                    again = c0  # C04's subject; the C04 check reports it
                else:
                    raise Violation("c04:refit-raised", {"error": repr(e)[:300]})
        for (p0, m_0), (p1, m_1) in zip(c0, again):
            if prop != "C09" and (m_0["names"] != m_1["names"] or not close(m_1["arr"], m_0["arr"])):
                raise Violation("c04:refit-differs", {"part": list(p0), "names0": m_0["names"], "names1": m_1["names"], "shape0": m_0["arr"].shape, "shape1": m_1["arr"].shape})

        # ---------------------------------------------------------------- history
        for step, op in enumerate(sc["ops"]):
            state["step"] = step
            stats["ops"] += 1
            seed_np(step)
            kind = op["op"]
            if op["h"] not in handles:
                continue
            h = handles[op["h"]]
            if kind == "follow":
                ids = op["ids"]
                fault = op.get("fault")
                if isinstance(h["ref"], ComboRef):
                    ids = [r for r in ids if h["ref"].present(r)]
                if not ids:
                    continue
                if fault is None:
                    data = frame(ids, op["index"], recat=op.get("recat"), keep=sc.get("used_vars") if op.get("only_used_cols") else None, iaf=bool(op.get("int_as_float")))
                    with warnings.catch_warnings():
                        warnings.simplefilter("ignore")
                        try:
                            res = call(h["spec"], op["entry"], data, h.get("mm"))
                            got = canon(res, Structured)
                        except Exception as e:  # noqa: BLE001
                            exp = h["ref"].expected(ids)
                            if prop == "C09":
                                # only a recovery failure if a pristine clone handles the same call
                                if faults_seen and _pristine_ok(pristine_blob, h, op, data, call, Structured):
                                    raise Violation("c09:recovery", {"why": "clean follow-up raises after faulty ones; pristine clone does not", "error": repr(e)[:300]})
                                log.append([step, "follow-raised-not-c09"])
                                continue
                            raise Violation("c04:follow-raised", {"error": repr(e)[:400], "ids": ids[:20], "entry": op["entry"],
                                                                  "reference_also_raised": isinstance(exp, Exception)})
                    try:
                        check_follow(h, ids, got, "c04")
                    except Violation as v:
                        if prop == "C09":
                            if faults_seen and _pristine_ok(pristine_blob, h, op, data, call, Structured, want=got) is False:
                                raise Violation("c09:recovery", {"why": "clean follow-up differs from reference after faulty ones; pristine clone agrees with reference", "inner": v.clause, "detail": v.detail})
                            log.append([step, "c04-clause-in-c09-run", v.clause])
                            continue
                        raise
                    if h["born"] >= 0 or last_touch.get(op["h"]):
                        pass
                    sig.append(["follow", h["kind"], h["depth"], op["entry"], last_touch.get(op["h"], ["-"])[0]])
                    if last_touch.get(op["h"], ["-"])[0] in ("restart", "fault"):
                        state["nontrivial"] = True
                    last_touch[op["h"]] = ["follow"]
                    log.append([step, "follow", arr_digest(got)])
                    continue
                # ------------------------------------------------------ faulty follow-up (C09 configuration)
                if fault["kind"] == "interrupt":
                    # an exception lands at the k-th traced line inside formulaic during an otherwise clean follow-up; the
                    # outcome of this call is ignored, every later clean call must still equal the reference
                    from checks.c18_purity import Interrupt, Tracer

                    data = frame(ids, op["index"])
                    tr = Tracer(fault["at"], env.src_root + "/formulaic") if env is not None else None
                    if tr is None:
                        continue
                    with warnings.catch_warnings():
                        warnings.simplefilter("ignore")
                        tr.start()
                        try:
                            call(h["spec"], op["entry"], data, h.get("mm"))
                        except (Interrupt, Exception):  # noqa: BLE001
                            pass
                        finally:
                            tr.stop()
                    if tr.fired:
                        faults_seen += 1
                        bump(stats, "faults", "interrupt")
                        last_touch[op["h"]] = ["fault"]
                        sig.append(["fault", "interrupt", h["kind"]])
                    log.append([step, "fault", "interrupt", bool(tr.fired)])
                    continue
                cv = classify_var(h.get("atoms", atoms), fault["var"])
                if fault["var"] not in h.get("vars", [fault["var"]]):
                    continue  # the subset spec does not use the faulted variable at all
                if fault["kind"] == "level_alias" and (cv["inf"] or cv["num_py"]):
                    continue  # on this handle the variable is also used by inference / numerically: an alias there is a kind question, not a level change
                fl = dict(fault)
                if fault["kind"] == "level_gain":
                    exp0 = h["ref"].expected(ids)
                    if isinstance(exp0, Exception) or exp0 is None:
                        continue
                    present = exp0[0][1]["present"]
                    dfu = world.universe_frame(u)
                    cand = [j for j, p in enumerate(present) if p == 1 and not _isnull(dfu[fault["var"]].iloc[ids[j]])]
                    if not cand:
                        continue
                    rows = [j for j in cand if (ids[j] * 13 + fault.get("salt", 0)) % 3 == 0] or [cand[0]]
                    fl["rows"] = rows
                    if all(not isinstance(x, str) for x in u["cols"][fault["var"]]["levels"]):
                        # whole-number categories: a float among the unseen values would make numpy read the whole column as
                        # float64, and hashed() would then stringify 10 as '10.0' (hashed()/dtype is C06's hole): not generated
                        for key_ in ("level", "level2"):
                            if isinstance(fl.get(key_), float):
                                fl[key_] = 77
                    if sc["container"] == "arrow":
                        # an arrow column holds one value type: the unseen level must be of the column's own type
                        fl.pop("level2", None)
                        numeric_levels = all(not isinstance(x, str) for x in u["cols"][fault["var"]]["levels"])
                        fl["level"] = 99 if numeric_levels else (fl["level"] if isinstance(fl["level"], str) else "NEW")
                data = frame(ids, op["index"], fl, recat=op.get("recat"))
                faults_seen += 1
                bump(stats, "faults", fault["kind"])
                last_touch[op["h"]] = ["fault"]
                for hid, hh in handles.items():
                    if hid != op["h"] and hh.get("shares_state_with") == op["h"] or h.get("shares_state_with") == hid:
                        last_touch[hid] = ["fault"]
                sig.append(["fault", fault["kind"], h["kind"], cv["inf"], cv["num_py"], cv["forced"]])
                with warnings.catch_warnings(record=True) as wlist:
                    warnings.simplefilter("always")
                    try:
                        res = call(h["spec"], op["entry"], data, h.get("mm"))
                        err: Optional[BaseException] = None
                    except Exception as e:  # noqa: BLE001
                        res, err = None, e
                mism = [w for w in wlist if issubclass(w.category, DataMismatchWarning)]
                log.append([step, "fault", fault["kind"], "raised" if err else "ok", bool(mism)])  # class may depend on set order
                if prop != "C09":
                    continue
                fk = fault["kind"]
                must_raise = (fk == "cat_to_num" and cv["inferred_cat"]) or (fk == "num_to_text" and (cv["inf"] or cv["num_py"]))
                any_error_ok = False
                if fault.get("allnull") and fk == "num_to_text":
                    # an entirely missing column is not a kind change for a numeric python factor (None reads as NaN): judged only
                    # through factors whose kind is inferred from the data, and then any exception counts as "no matrix"
                    if not cv["inf"]:
                        continue
                    any_error_ok = cv["num_py"]
                if must_raise and any_error_ok:
                    if err is None:
                        raise Violation("c09:kind-flip-not-rejected", {"fault": fault, "var_roles": cv, "returned": brief(canon(res, Structured))})
                    bump(stats, "probes", "kind_flip_rejected")
                    continue
                if must_raise:
                    if err is None:
                        got = canon(res, Structured)
                        raise Violation("c09:kind-flip-not-rejected", {"fault": fault, "var_roles": cv, "returned": brief(got)})
                    if not isinstance(err, FormulaMaterializationError):
                        raise Violation("c09:kind-flip-wrong-error", {"fault": fault, "var_roles": cv, "error": repr(err)[:300], "want": "FormulaMaterializationError"})
                    exact = (fk == "cat_to_num" and not cv["num_py"]) or (fk == "num_to_text" and cv["inf"] and not cv["num_py"])
                    if exact and not isinstance(err, FactorEncodingError):
                        raise Violation("c09:kind-flip-wrong-error", {"fault": fault, "var_roles": cv, "error": repr(err)[:300], "want": "FactorEncodingError"})
                    bump(stats, "probes", "kind_flip_rejected")
                    if op.get("retry") and isinstance(h["spec"], ModelSpec):
                        # a materializer the caller holds on to must keep refusing the bad data
                        mat = h["spec"].get_materializer(data, context=world.user_context())
                        outcomes = []
                        for _ in range(2):
                            try:
                                outcomes.append(canon(mat.get_model_matrix(h["spec"]), Structured))
                            except Exception as e2:  # noqa: BLE001
                                outcomes.append(e2)
                        if not all(isinstance(o, Exception) for o in outcomes):
                            raise Violation("c09:kind-flip-not-rejected", {"fault": fault, "var_roles": cv, "why": "materializer retried after the rejection returned a matrix",
                                                                           "outcomes": ["raised" if isinstance(o, Exception) else brief(o) for o in outcomes]})
                        bump(stats, "probes", "held_materializer_retried_after_rejection")
                    continue
                # level-change semantics (level_gain, or a flip of a variable only ever used under C()/hashed())
                if err is not None:
                    raise Violation("c09:level-change-raised", {"fault": fault, "var_roles": cv, "error": repr(err)[:300]})
                got = canon(res, Structured)
                for (pg, mg), names0 in zip(got, h["names"]):
                    if mg["names"] != names0 or (mg["spec_names"] is not None and mg["spec_names"] != names0):
                        raise Violation("c09:level-change-reshaped-columns", {"fault": fault, "got": mg["names"], "recorded": names0})
                if len(got) != len(h["names"]):
                    raise Violation("c09:level-change-reshaped-columns", {"fault": fault, "parts": len(got)})
                survivors = got[0][1]["arr"].shape[0] if got else 0
                if cv["nonhashed_cat"] and not mism and survivors > 0 and not fault.get("allnull"):  # nulls are not unseen levels
                    raise Violation("c09:level-change-no-warning", {"fault": fault, "var_roles": cv, "warnings": [str(w.message)[:80] for w in wlist]})
                if fk == "level_gain":
                    try:
                        check_follow(h, ids, got, "c09:level-gain", skip_rows=set(fl["rows"]))
                    except Violation:
                        # only the fault's doing if the same follow-up WITHOUT the unseen level matches the reference
                        clean = frame(ids, op["index"], recat=op.get("recat"))
                        with warnings.catch_warnings():
                            warnings.simplefilter("ignore")
                            try:
                                check_follow(h, ids, canon(call(h["spec"], op["entry"], clean, h.get("mm")), Structured), "c04")
                            except Exception:  # noqa: BLE001  (C04's subject; the C04 check reports it)
                                log.append([step, "level-gain-rows-mismatch-not-c09"])
                                continue
                        raise
                    bump(stats, "probes", "level_gain_rows_checked")
                continue
            if kind == "restart" and op["how"] == "xproc":
                xp = env.resources.get("xproc") if env is not None else None
                ids = op["ids"]
                if xp is None or not ids:
                    continue
                msg = {"blob": pickle.dumps(h["spec"], protocol=5), "universe": u, "container": sc["container"], "ids": ids, "pick": op.get("pick", [])}
                theirs = xp.eval(msg)
                if "oracle_error" in theirs:
                    raise RuntimeError("xproc helper error: " + theirs["oracle_error"])
                mine = xproc_payload(h["spec"], msg)
                bump(stats, "faults", "restart:xproc")
                bump(stats, "extra", "xproc_hash_seed_differs", int(theirs.get("hashseed") != env.hashseed))
                sig.append(["restart", "xproc", h["kind"], h["depth"]])
                log.append([step, "restart", "xproc", [k for k in sorted(mine) if k != "hashseed"]])
                for key in sorted(set(mine) | set(theirs)):
                    if key == "hashseed":
                        continue
                    a, b = mine.get(key), theirs.get(key)
                    if not xproc_equal(a, b):
                        if prop == "C09":
                            break  # C04's subject; the C04 check reports it
                        raise Violation("c04:restart-not-identical", {"how": "xproc: spec pickled here, restored in another interpreter (PYTHONHASHSEED %s vs %s)" % (env.hashseed, theirs.get("hashseed")),
                                                                      "aspect": key, "original": xproc_brief(a), "restored": xproc_brief(b)})
                continue
            if kind == "restart":
                how = op["how"]
                try:
                    if how.startswith("pickle"):
                        new_spec = pickle.loads(pickle.dumps(h["spec"], protocol=int(how[-1])))
                        new_mm = None
                    elif how == "copy":
                        new_spec, new_mm = copy.copy(h["spec"]), None
                    elif how == "deepcopy":
                        new_spec, new_mm = copy.deepcopy(h["spec"]), None
                    elif how == "mm_pickle":
                        new_mm = pickle.loads(pickle.dumps(h["mm"]))
                        new_spec = new_mm.model_spec
                    elif how in ("mm_copy", "mm_deepcopy"):
                        new_mm = copy.copy(h["mm"]) if how == "mm_copy" else copy.deepcopy(h["mm"])
                        new_spec = new_mm.model_spec
                    else:
                        if isinstance(h["spec"], ModelSpec):
                            new_spec, new_mm = h["spec"].update(), None
                        else:
                            new_spec, new_mm = ModelSpec.from_spec(h["spec"]), None
                except Exception as e:  # noqa: BLE001
                    raise Violation("c04:restart-failed", {"how": how, "error": repr(e)[:300]})
                nh = {"spec": new_spec, "mm": new_mm, "ref": h["ref"], "kind": h["kind"] if h["kind"] != "root" else "restart",
                      "depth": h["depth"] + 1, "born": step, "names": h["names"]}
                if how in ("copy", "update", "mm_copy"):
                    nh["shares_state_with"] = op["h"]
                if "atoms" in h:
                    nh["atoms"], nh["vars"] = h["atoms"], h["vars"]
                handles[op["new"]] = nh
                bump(stats, "faults", "restart:" + ("pickle" if how.startswith("pickle") else how))
                last_touch[op["new"]] = ["restart"]
                sig.append(["restart", how if not how.startswith("pickle") else "pickle", h["kind"], h["depth"]])
                # (iii) restored spec is bit-identical to the original on the same frame
                ids = op["ids"]
                if ids:
                    data = frame(ids, "rid")
                    outs = []
                    for s in (h["spec"], new_spec):
                        seed_np(step)
                        with warnings.catch_warnings():
                            warnings.simplefilter("ignore")
                            try:
                                outs.append(canon(s.get_model_matrix(data, context=world.user_context()), Structured))
                            except Exception as e:  # noqa: BLE001
                                outs.append(e)
                    a, b = outs
                    if isinstance(a, Exception) != isinstance(b, Exception):
                        raise Violation("c04:restart-not-identical", {"how": how, "original": repr(a)[:200] if isinstance(a, Exception) else "ok", "restored": repr(b)[:200] if isinstance(b, Exception) else "ok"})
                    if not isinstance(a, Exception):
                        for (pa, ma), (pb, mb) in zip(a, b):
                            same = ma["names"] == mb["names"] and ma["arr"].shape == mb["arr"].shape and (
                                ma["arr"].tobytes() == mb["arr"].tobytes() if ma["arr"].dtype != object else close(ma["arr"], mb["arr"]))
                            if not same and not (ma["arr"].dtype != object and np.array_equal(ma["arr"], mb["arr"], equal_nan=True)):
                                raise Violation("c04:restart-not-identical", {"how": how, "part": list(pa), "names_a": ma["names"], "names_b": mb["names"]})
                    log.append([step, "restart", how, arr_digest(b) if not isinstance(b, Exception) else "raised"])
                continue
            if kind == "subset":
                if not isinstance(h["spec"], ModelSpec):
                    continue
                terms = list(h["spec"].terms)
                pick = [t for t, p in zip(terms, op["pick"]) if p] or terms[:1]
                r = core.stream(op["shuffle"], "subset")
                r.shuffle(pick)
                try:
                    sub = h["spec"].subset(pick)
                except Exception as e:  # noqa: BLE001
                    raise Violation("c04:subset-failed", {"terms": [str(t) for t in pick], "error": repr(e)[:300]})
                names = list(sub.column_names)
                def norm(x: Any) -> str:
                    x = str(x).strip()
                    if x.startswith("{") and x.endswith("}"):
                        x = x[1:-1]
                    return x.replace(" ", "").replace('"', "'").replace("`", "")

                kept = {norm(fa.expr) for t in pick for fa in t.factors}
                parent_exprs = {norm(fa.expr) for t in terms for fa in t.factors}
                sub_atoms = [a for a in atoms if norm(a["expr"]) in kept]
                # variables whose every use could be matched to a factor of the parent spec (others are not faulted on this handle)
                unmatched = {v for a in atoms if norm(a["expr"]) not in parent_exprs for v in a["vars"]}
                handles[op["new"]] = {"atoms": sub_atoms, "vars": sorted({v for a in sub_atoms for v in a["vars"]} - unmatched), "spec": sub, "mm": None, "ref": Ref(pickle.loads(pickle.dumps(sub)), sc, Structured, subset_names=names, parent=h["ref"]),
                                      "kind": "subset", "depth": h["depth"] + 1, "born": step, "names": [names], "shares_state_with": op["h"]}
                last_touch[op["new"]] = ["restart"]
                sig.append(["subset", len(pick), len(terms)])
                bump(stats, "faults", "restart:subset")
                continue
            if kind == "combo":
                # specs from two SEPARATE fits put into one container by the caller and materialized jointly
                if spec1 is None or not isinstance(h["spec"], ModelSpec):
                    continue
                try:
                    if op.get("staged"):
                        # the container is first built and USED with two copies of one spec, then a member is replaced
                        combo = ModelSpecs(a=h["spec"], b=h["spec"])
                        warm = [r for r in op.get("ids", []) if not isinstance(h["ref"].block(r), Exception)]
                        if warm:
                            with warnings.catch_warnings():
                                warnings.simplefilter("ignore")
                                combo.get_model_matrix(frame(warm, "rid"), context=world.user_context())
                        combo.b = spec1
                        bump(stats, "probes", "container_member_replaced_after_use")
                    else:
                        combo = ModelSpecs(a=h["spec"], b=spec1)
                    clone = pickle.loads(pickle.dumps(combo))
                except Exception as e:  # noqa: BLE001
                    raise Violation("c04:restart-failed", {"how": "ModelSpecs(a=spec, b=other spec) + pickle", "error": repr(e)[:300]})
                _ = clone
                both_atoms = list(h.get("atoms", atoms)) + list(sc["formula2"]["atoms"])
                handles[op["new"]] = {"atoms": both_atoms, "vars": sorted({v for a in both_atoms for v in a["vars"]}),
                                      "spec": combo, "mm": None, "ref": ComboRef([("a", h["ref"]), ("b", ref1)]), "kind": "combo", "depth": h["depth"] + 1, "born": step,
                                      "names": [h["names"][0], names1[0]], "shares_state_with": op["h"]}
                last_touch[op["new"]] = ["restart"]
                sig.append(["combo"])
                bump(stats, "probes", "specs_of_two_fits_materialized_jointly")
                continue
            if kind == "leaf":
                if not isinstance(h["spec"], Structured):
                    continue
                lv = walk(h["spec"], Structured)
                path, leaf = lv[op["which"] % len(lv)]
                names = list(leaf.column_names)
                handles[op["new"]] = {"spec": leaf, "mm": None, "ref": Ref(pickle.loads(pickle.dumps(leaf)), sc, Structured), "kind": "leaf",
                                      "depth": h["depth"] + 1, "born": step, "names": [names], "shares_state_with": op["h"]}
                last_touch[op["new"]] = ["restart"]
                if all(m["arr"].shape[0] == len(sc["train"]) for _, m in c0):
                    # no training row was dropped, so the part's own spec on the training data must reproduce the part's matrix
                    part0 = [m for p_, m in c0 if tuple(p_) == tuple(path)]
                    with warnings.catch_warnings():
                        warnings.simplefilter("ignore")
                        try:
                            alone = canon(leaf.get_model_matrix(tframe, context=world.user_context()), Structured)
                        except Exception as e:  # noqa: BLE001
                            raise Violation("c04:refit-raised", {"error": repr(e)[:300], "handle": "part of a structured spec used alone", "path": list(path)})
                    if part0 and (alone[0][1]["names"] != part0[0]["names"] or not close(alone[0][1]["arr"], part0[0]["arr"])):
                        raise Violation("c04:refit-differs", {"handle": "part of a structured spec used alone", "path": list(path), "names": part0[0]["names"]})
                    bump(stats, "probes", "structured_leaf_reproduces_its_training_part")
                sig.append(["leaf", len(lv)])
                bump(stats, "probes", "structured_leaf_used_alone")
                continue
            if kind == "refit":
                with warnings.catch_warnings():
                    warnings.simplefilter("ignore")
                    try:
                        again = canon(h["spec"].get_model_matrix(tframe, context=world.user_context()), Structured)
                    except Exception as e:  # noqa: BLE001
                        if prop == "C09":
                            continue
                        raise Violation("c04:refit-raised", {"error": repr(e)[:300]})
                for (p0, m_0), (p1, m_1) in zip(c0, again):
                    if m_0["names"] != m_1["names"] or not close(m_1["arr"], m_0["arr"]):
                        if prop == "C09":
                            if faults_seen:
                                raise Violation("c09:recovery", {"why": "training matrix no longer reproduced after faulty follow-ups", "part": list(p0)})
                            continue
                        raise Violation("c04:refit-differs", {"part": list(p0), "names0": m_0["names"], "names1": m_1["names"], "step": step})
                sig.append(["refit", h["kind"]])
                log.append([step, "refit"])
                continue

        # ------------------------------------------------------- final sweep: the live spec on the whole domain
        state["step"] = len(sc["ops"])
        dom = sc["dom"]
        if dom:
            seed_np(10**6)
            full_dom = dom
            for hid in sorted(handles):
                h = handles[hid]
                dom = [r for r in full_dom if h["ref"].present(r)] if isinstance(h["ref"], ComboRef) else full_dom
                if not dom:
                    continue
                data = frame(dom, "rid")
                with warnings.catch_warnings():
                    warnings.simplefilter("ignore")
                    try:
                        got = canon(h["spec"].get_model_matrix(data, context=world.user_context()), Structured)
                    except Exception as e:  # noqa: BLE001
                        if prop == "C09":
                            if faults_seen and _pristine_ok(pristine_blob, h, {"entry": "spec.gmm"}, data, call, Structured):
                                raise Violation("c09:recovery", {"why": "final sweep raises; pristine clone does not", "error": repr(e)[:300]})
                            continue
                        raise Violation("c04:follow-raised", {"error": repr(e)[:400], "ids": "whole training domain", "handle": h["kind"],
                                                              "reference_also_raised": isinstance(h["ref"].expected(dom), Exception)})
                try:
                    check_follow(h, dom, got, "c04")
                except Violation as v:
                    if prop == "C09":
                        if faults_seen and _pristine_ok(pristine_blob, h, {"entry": "spec.gmm"}, data, call, Structured, want=got) is False:
                            raise Violation("c09:recovery", {"why": "final sweep differs from reference; pristine clone agrees", "inner": v.clause, "detail": v.detail})
                        continue
                    raise
            log.append(["final", len(handles)])
        stats["extra"]["ref_calls"] = root_ref.calls
    except Violation as v:
        violation = {"clause": v.clause, "step": state["step"], "detail": v.detail}
    s = core.digest(sig)
    stats["signatures"] = [s]
    if state.get("nontrivial"):
        stats["nontrivial"] = [s]
    stats["sample"] = {"formula": sc["formula"]["spec"], "container": sc["container"], "opts": sc["opts"], "train_rows": len(sc["train"]),
                       "ops": [{k: (v if k != "ids" else len(v)) for k, v in o.items() if k not in ("pick",)} for o in sc["ops"][:10]]}
    _ = formulaic
    return {"violation": violation, "log": log, "stats": stats}


def xproc_payload(spec: Any, msg: dict) -> dict:
    """What is asked of a spec on either side of a cross-process restart (same code runs in both interpreters)."""
    import os

    from formulaic import ModelSpec
    from formulaic.parser.types import Factor, Term
    from formulaic.utils.structured import Structured

    out: dict[str, Any] = {"hashseed": os.environ.get("PYTHONHASHSEED")}
    data = world.take(msg["universe"], msg["ids"], container=msg["container"], index="rid")

    def attempt(key: str, fn: Any) -> None:
        try:
            with warnings.catch_warnings():
                warnings.simplefilter("ignore")
                out[key] = fn()
        except Exception as e:  # noqa: BLE001
            out[key] = {"raised": type(e).__name__ + ": " + str(e)[:200]}

    def pack(mm: Any) -> list:
        return [[list(map(str, p)), m["names"], m["arr"]] for p, m in canon(mm, Structured)]

    attempt("follow", lambda: pack(spec.get_model_matrix(data, context=world.user_context())))
    if isinstance(spec, ModelSpec) and spec.structure is not None:
        terms = list(spec.terms)
        sel = [t for t, p in zip(terms, msg.get("pick", [])) if p] or terms[:1]
        # the caller names terms afresh (strings / new Term objects), it does not hold the restored Term instances
        fresh = [Term([Factor(f.expr, eval_method=f.eval_method, kind=f.kind) for f in t.factors]) for t in sel]
        attempt("subset_columns", lambda: list(spec.subset(fresh).column_names))
        attempt("subset_follow", lambda: pack(spec.subset(fresh).get_model_matrix(data, context=world.user_context())))
        attempt("term_indices", lambda: [list(spec.term_indices[t]) for t in fresh])
        attempt("term_slices", lambda: [[spec.get_slice(t).start, spec.get_slice(t).stop] for t in fresh])
        attempt("get_term_indices", lambda: list(spec.get_term_indices(fresh)))
        attempt("column_names", lambda: list(spec.column_names))
    return out


def oracle_eval(msg: dict) -> dict:
    """Entry point of the cross-process helper (runs in a forked child of a template interpreter under another hash seed)."""
    import_formulaic_checked()
    return xproc_payload(pickle.loads(msg["blob"]), msg)


def xproc_equal(a: Any, b: Any) -> bool:
    import numpy as np

    if isinstance(a, dict) or isinstance(b, dict):
        # both raised: equal outcome (class may legitimately differ); one raised: different
        return isinstance(a, dict) and isinstance(b, dict)
    if isinstance(a, list) and isinstance(b, list):
        return len(a) == len(b) and all(xproc_equal(x, y) for x, y in zip(a, b))
    if isinstance(a, np.ndarray) or isinstance(b, np.ndarray):
        return isinstance(a, np.ndarray) and isinstance(b, np.ndarray) and close(a, b)
    return a == b


def xproc_brief(x: Any) -> Any:
    import numpy as np

    if isinstance(x, list):
        return [xproc_brief(y) for y in x][:6]
    if isinstance(x, np.ndarray):
        return {"shape": list(x.shape), "head": x[:2].tolist()}
    return x


def _isnull(x: Any) -> bool:
    try:
        return x is None or x != x
    except Exception:
        return False


def _pristine_ok(blob: bytes, h: dict, op: dict, data: Any, call: Any, Structured: Any, want: Any = None) -> Optional[bool]:
    """Run the same clean call on a never-faulted clone of the fitted root spec.

    Without ``want``: True if the pristine clone handles the call without raising.
    With ``want`` (the live result): False if the pristine result differs from it (so the live spec was
    changed by the faults), True if identical (not a recovery problem), None if not comparable.
    Only meaningful for handles that are (copies of) the root spec.
    """
    import numpy as np

    if h["kind"] not in ("root", "restart"):
        return None
    clone = pickle.loads(blob)
    with warnings.catch_warnings():
        warnings.simplefilter("ignore")
        try:
            res = canon(clone.get_model_matrix(data, context=world.user_context()), Structured)
        except Exception:  # noqa: BLE001
            return False if want is None else None
    if want is None:
        return True
    if len(res) != len(want):
        return False
    for (pa, ma), (pb, mb) in zip(res, want):
        if ma["names"] != mb["names"] or ma["arr"].shape != mb["arr"].shape:
            return False
        if ma["arr"].dtype == object or mb["arr"].dtype == object:
            if not close(ma["arr"], mb["arr"]):
                return False
        elif not np.array_equal(ma["arr"], mb["arr"], equal_nan=True):
            return False
    return True


# =============================================================================
# shrinking support
# =============================================================================


def reduce(scenario: dict, keep: list[int]) -> Optional[dict]:
    sc = copy.deepcopy(scenario)
    ops = [scenario["ops"][i] for i in keep]
    have = {0}
    out = []
    for op in ops:
        if op["h"] not in have:
            continue
        if "new" in op:
            have.add(op["new"])
        out.append(copy.deepcopy(op))
    sc["ops"] = out
    return sc


def simplify(scenario: dict):
    sc = scenario
    # fewer ids in follow-ups
    for i, op in enumerate(sc["ops"]):
        ids = op.get("ids")
        if ids and len(ids) > 1:
            for part in (ids[: len(ids) // 2], ids[len(ids) // 2:], ids[:1], ids[-1:]):
                c = copy.deepcopy(sc)
                c["ops"][i]["ids"] = part
                yield c
    # smaller final sweep / training domain
    if len(sc["dom"]) > 1:
        for part in (sc["dom"][: len(sc["dom"]) // 2], sc["dom"][len(sc["dom"]) // 2:], sc["dom"][:1]):
            c = copy.deepcopy(sc)
            c["dom"] = part
            yield c
    # default options
    for k, v in (("output", "pandas"), ("ensure_full_rank", True)):
        if sc["opts"].get(k) != v:
            c = copy.deepcopy(sc)
            c["opts"][k] = v
            yield c
    if "cluster_by" in sc["opts"]:
        c = copy.deepcopy(sc)
        del c["opts"]["cluster_by"]
        yield c
    if sc["container"] != "pandas":
        c = copy.deepcopy(sc)
        c["container"] = "pandas"
        yield c
    # fewer training rows
    if len(sc["train"]) > 8:
        c = copy.deepcopy(sc)
        c["train"] = sc["train"][: max(8, len(sc["train"]) // 2)]
        c["dom"] = [i for i in c["dom"] if i in set(world.training_domain(c["universe"], c["formula"], c["train"]))]
        for op in c["ops"]:
            if "ids" in op:
                op["ids"] = [i for i in op["ids"] if i in set(c["dom"])]
        yield c
    # simpler formula: drop whole '+' terms of a plain string formula
    spec = sc["formula"]["spec"]
    if isinstance(spec, str) and "~" not in spec and "|" not in spec:
        parts = [p.strip() for p in spec.split(" + ")]
        if len(parts) > 1:
            for j in range(len(parts)):
                c = copy.deepcopy(sc)
                c["formula"]["spec"] = " + ".join(parts[:j] + parts[j + 1:])
                c["formula"]["atoms"] = [a for a in c["formula"]["atoms"] if a["expr"] in c["formula"]["spec"]]
                c["ops"] = [o for o in c["ops"] if o["op"] not in ("subset",)]
                yield c


def features(scenario: dict, violation: dict) -> dict:
    spec = scenario["formula"]["spec"]
    s = repr(spec)
    return {
        "clause": violation["clause"],
        "form": scenario["formula"]["form"],
        "container": scenario["container"],
        "uses_backtick_alias_pair": ("`a b`" in s and "a_b" in scenario["universe"]["cols"]),
        "uses_hashed": "hashed(" in s,
        "fault_kinds": sorted({o["fault"]["kind"] for o in scenario["ops"] if o.get("fault")}),
    }

"""C04 - a model spec replays the recorded encoding row by row on any data.

Fault-free configuration of the spec-replay machine (checks/specmachine.py):
restarts (pickle protocols 0-5, copy, deepcopy, pickled ModelMatrix, update(),
subset(), leaves of structured specs) are interleaved with clean follow-ups on
arbitrary sub-multisets of the training domain; no bad data is injected here.
"""

from __future__ import annotations

from checks import specmachine as sm

PROPERTY = "C04"

TIERS = {
    "quick": {"runs": 2400, "chunk": 75, "budget_s": 75, "run_timeout_s": 300, "shrink_s": 40, "chunk_timeout_s": 900},
    "thorough": {"runs": 60000, "chunk": 400, "budget_s": 900, "run_timeout_s": 300, "shrink_s": 120, "chunk_timeout_s": 2700},
}

RULE = (
    "One run = one seeded history: fit a generated formula (stateful/stateless built-ins, contrasts, interactions, optional "
    "lhs/multi-part/dict/tuple structure; pandas/dict/arrow containers; pandas/numpy/sparse outputs) on a training multiset of a "
    "generated row universe, then 6-22 scheduled operations over the spec and objects derived from it: clean follow-ups on any "
    "subset/duplication/reordering of the training domain through three entry points and three index modes, restarts (pickle 0-5, "
    "copy, deepcopy, pickled ModelMatrix, update), subset() siblings, structured leaves used alone, re-materialisation of the "
    "training data. The process-wide numpy RNG is reseeded differently before every operation. Oracle: one-row reference model "
    "built from a pickled clone; restored specs must be bit-identical to their originals; final sweep of every live handle over "
    "the whole domain. Signature = hash of (formula form, container, output, sequence of (op kind, handle kind, lineage depth, "
    "entry, what last touched the handle)). Non-trivial = some follow-up is served by a handle whose previous event was a restart "
    "(i.e. a restart is interposed between the fit/earlier follow-ups and a later follow-up of the same lineage)."
)

COMPONENTS = {
    "real_code": ["all of formulaic (parser, materializers pandas+narwhals, transforms, ModelSpec/ModelSpecs, ModelMatrix)",
                  "pandas, numpy, scipy.sparse, pyarrow, narwhals", "pickle / copy", "process-wide numpy RNG (reseeded per op)"],
    "stubs": ["row universe / data generators", "one-row reference model (calls the real code on a private pickled clone)"],
    "fault_kinds": "restart:* = only pickled/copied state survives; no exceptions or bad data are injected in this configuration (that is C09 / C18)",
}

ASSUMPTIONS = [
    "follow-up data is drawn from the training domain (levels seen in training; values inside the training range when a bounded spline with extrapolation='raise' is present)",
    "a fit that raises or yields non-finite training values is outside the quantifier and is skipped (counted as degenerate_fit)",
    "numeric comparison is NaN-aware with |a-b| <= 1e-9(1+|b|); restored-vs-original comparison is exact",
    "a clean batch is sampling evidence, not proof",
]


def generate(run_seed: int, tier: str) -> dict:
    return sm.generate(run_seed, tier, faults=False)


def execute(scenario: dict, env) -> dict:
    return sm.execute(scenario, env, prop="C04")




def worker_setup(env, replay_meta=None) -> None:
    """Start the cross-process helper: a template interpreter under ANOTHER hash seed (forks per request)."""
    from sim import core
    from sim.driver import VERIF
    from sim.oracle import OracleClient

    if replay_meta and replay_meta.get("xproc_hashseed"):
        h2 = str(replay_meta["xproc_hashseed"])
    else:
        h2 = str(core.h64("xproc-hashseed", env.chunk_seed) % 4294967295)
        if h2 == env.hashseed:
            h2 = str((int(h2) + 1) % 4294967295)
    env.resources["xproc"] = OracleClient("checks.specmachine", h2, str(VERIF))
    env.xproc_hashseed = h2


def replay_meta(env) -> dict:
    return {"xproc_hashseed": env.xproc_hashseed}


reduce = sm.reduce
simplify = sm.simplify
features = sm.features

"""C18 - materialization is pure and deterministic across calls, histories and hash seeds.

History process (hash seed H1): 1-4 logical clients perform whole calls (parse,
build, make_spec, reuse, derive, read, shared drop sets) over a pool of shared
formulas, specs, matrices, data frames and contexts, in an order chosen by a
seeded scheduler, with injected failing calls.  Oracle: for *every* call, a
pristine child forked from a template interpreter under another hash seed H2
rebuilds only the call's lineage from recipes and performs the call; the two
outcomes must be bit-identical.  The process-wide numpy RNG is seeded with
different streams on the two sides.
"""

from __future__ import annotations

import copy
import hashlib
import pickle
import sys
import warnings
from typing import Any, Optional

from sim import core, world
from sim.driver import VERIF, import_formulaic_checked

PROPERTY = "C18"

TIERS = {
    "quick": {"runs": 1100, "chunk": 24, "budget_s": 80, "run_timeout_s": 400, "shrink_s": 45, "chunk_timeout_s": 1200},
    "thorough": {"runs": 16000, "chunk": 24, "budget_s": 900, "run_timeout_s": 400, "shrink_s": 150, "chunk_timeout_s": 3000, "interrupt": True},
}

RULE = (
    "One run = one seeded history of 10-36 whole calls by 1-4 interleaved clients over a shared pool (2-4 data frames in "
    "pandas/dict/arrow containers, shared Formula objects, fitted specs, unfitted user-built specs, derived specs (update, subset, "
    "pickle, copy, deepcopy, pickled matrix), model matrices, caller-owned drop sets, context mappings, client functions with "
    "captured frames), including failing calls (user exception inside a formula callable, bad input, and - thorough tier - an "
    "exception raised at the k-th traced line inside formulaic). Every call is compared with the same call performed by a pristine "
    "forked child of a template interpreter under a different PYTHONHASHSEED that replays only the call's lineage; invariants "
    "(inputs unchanged) after every step; final sweep re-using every pooled spec. Signature = hash of the sequence of (op kind, "
    "lineage depth of target, ops since target was created, whether an object sharing state with the target was used in between). "
    "Non-trivial = at least one call on a spec (or drop set) is separated from that object's creation/previous use by a call on an "
    "object that shares state with it (same spec, update()/subset()/copy sibling, or the same unfitted spec on other data)."
)

COMPONENTS = {
    "real_code": ["all of formulaic", "pandas, numpy, scipy.sparse, pyarrow, narwhals", "CPython str hashing (PYTHONHASHSEED) on both sides",
                  "pickle / copy", "process-wide numpy RNG (different streams on the two sides)", "warnings machinery"],
    "stubs": ["row universe / data generators", "user callables placed in contexts (incl. the 'flaky' fault shim)", "sys.settrace line-event interrupter (thorough tier)"],
    "fault_kinds": "user_exc, bad_input, interrupt (thorough), restart (derive by pickle/copy); counted when they actually fired",
}

ASSUMPTIONS = [
    "a freshly forked child of an interpreter that only imported formulaic is a faithful 'first ever call' environment",
    "across hash seeds failing calls are compared only as 'failed' (which exception surfaces first legitimately depends on set order); drop sets handed to a failed call are retired",
    "key order of metadata dictionaries is not part of the result; only values, column order, index labels, dtypes and dropped rows are digested",
    "hash seeds are sampled (one pair per worker process), not enumerated; whole calls are atomic (no thread pre-emption: the property quantifies over call sequences)",
]


class Violation(Exception):
    def __init__(self, clause: str, detail: Any):
        self.clause = clause
        self.detail = detail


# =============================================================================
# generation
# =============================================================================

CTX_FUNCS = ["double", "square", "shift"]


def generate(run_seed: int, tier: str) -> dict:
    rng = core.stream(run_seed, "c18")
    swarm = core.stream(run_seed, "swarm")
    u = world.gen_universe(rng, n_lo=12, n_hi=36, ticked_p=0.3)
    n = u["n"]
    nclients = swarm.randint(1, 4)
    enable = {
        "unfitted": swarm.random() < 0.7,
        "derive": swarm.random() < 0.85,
        "drops": swarm.random() < 0.5,
        "client_fn": swarm.random() < 0.5,
        "user_exc": swarm.random() < 0.5,
        "bad_input": swarm.random() < 0.6,
        "interrupt": swarm.random() < (0.6 if TIERS[tier].get("interrupt", False) else 0.25),
        "parsers": swarm.random() < 0.4,
    }
    # data objects
    datas = {}
    for i in range(swarm.randint(2, 4)):
        k = rng.randint(max(6, n // 3), n)
        ids = rng.sample(range(n), k)
        if rng.random() < 0.7:
            ids = sorted(set(ids) | set(range(min(5, n))))
            rng.shuffle(ids)
        datas[f"D{i}"] = {"ids": ids, "container": core.weighted(rng, [("pandas", 6), ("recarray", 1), ("pandas_sub", 1), ("arrow", 1)]),
                          "index": core.weighted(rng, [("rid", 3), ("range", 2), ("str", 1)])}
        if "a|b" in u["cols"] and rng.random() < 0.5:
            datas[f"D{i}"]["without"] = ["a_b"]  # this caller's frame has no column named like the shared alias
    if swarm.random() < 0.5:
        cats = [c for c in u["cols"] if u["cols"][c]["kind"] in ("text_object", "text_default", "category")]
        nums = [c for c in u["cols"] if u["cols"][c]["kind"] in ("float", "int")]
        flip = {"kind": "cat_to_num", "var": rng.choice(cats)} if cats and rng.random() < 0.5 else {"kind": "num_to_text", "var": rng.choice(nums), "dtype": "object"}
        datas["DK"] = {"ids": rng.sample(range(n), min(n, rng.randint(6, 12))), "container": "pandas", "index": "range", "mutate": flip}
    if enable["bad_input"]:
        datas["DX"] = {"ids": rng.sample(range(n), min(n, 8)), "container": "pandas", "index": "range", "drop_col": rng.choice(sorted(u["cols"]))}
    contexts = {"C0": {"const": 2.0, "myfun": "double", "knots": [-0.5, 0.5]},
                "C1": {"const": 3.0, "myfun": rng.choice(CTX_FUNCS), "knots": [-1.0, 0.0, 1.0]}}
    if swarm.random() < 0.5:
        # the caller's own *plain* function shadows a built-in stateful transform of the same name in this context
        contexts["C1"]["shadow"] = rng.choice(["center", "scale", "poly"])
    # formulas
    frecipes = []
    for i in range(swarm.randint(2, 4)):
        f = world.gen_formula(rng, u, rich=swarm.random() < 0.8, structured_p=swarm.choice([0.0, 0.3, 0.5]), max_terms=swarm.choice([2, 3, 4]), force_ticked=True)
        if isinstance(f["spec"], str) and rng.random() < 0.3:
            catcols = [c for c in u["cols"] if u["cols"][c]["kind"] in ("text_object", "text_default", "category")]
            if catcols and rng.random() < 0.35:
                # one contrasts INSTANCE held by the caller and used for one or two factors
                f["spec"] += " + " + " + ".join(f"C({c_}, contr_obj)" for c_ in rng.sample(catcols, min(len(catcols), rng.randint(1, 2))))
            if rng.random() < 0.3:
                # a caller-supplied callable whose result depends on how often it has been called within this build
                numc = [c_ for c_ in u["cols"] if u["cols"][c_]["kind"] == "float"]
                f["spec"] += " + " + " + ".join(f"tick({world.q(c_)})" for c_ in rng.sample(numc, min(len(numc), rng.randint(2, 3))))
            if rng.random() < 0.12:
                f["spec"] += " + ft.cubic_spline(x, df=4)"
            f["spec"] += rng.choice([" + lag(vec)", " + lag(vec, 2)", " + np.log(x)", " + np.sqrt(z):x" if "z" in u["cols"] else " + np.sqrt(x)", " + myfun(x)", " + {x * const}", " + myfun(x):const", " + bs(x, knots=knots, extrapolation='extend')",
                                     " + bs(x, knots=knots, degree=2, extrapolation='clip')"])
            f["uses_ctx"] = True
        frecipes.append(f)

    if swarm.random() < 0.3:
        names_ = [c_ for c_ in u["cols"] if c_.isidentifier() and u["cols"][c_]["kind"] in ("float", "int")]
        if len(names_) >= 2:
            pick_ = names_[: rng.randint(2, min(5, len(names_)))]
            if rng.random() < 0.5:
                frecipes.append({"spec": {"__set__": pick_}, "form": "simple", "atoms": []})
            else:
                frecipes.append({"spec": {"__termset__": " + ".join(pick_) + " - 1"}, "form": "simple", "atoms": []})
    ops: list[dict] = []
    sym: dict[str, dict] = {}  # symbolic pool: id -> {"kind": ..}
    counters = {"F": 0, "S": 0, "M": 0, "X": 0}

    def new(kind: str, **info: Any) -> str:
        i = f"{kind}{counters[kind]}"
        counters[kind] += 1
        sym[i] = {"kind": kind, **info}
        return i

    def pick(kind: str, pred=lambda s: True) -> Optional[str]:
        c = [i for i, s in sym.items() if s["kind"] == kind and pred(s)]
        return rng.choice(c) if c else None

    def opts() -> dict:
        o: dict[str, Any] = {}
        if rng.random() < 0.5:
            o["output"] = core.weighted(rng, [("pandas", 4), ("numpy", 2), ("sparse", 2)])
        if rng.random() < 0.25:
            o["ensure_full_rank"] = False
        if rng.random() < 0.15:
            o["na_action"] = rng.choice(["ignore", "drop"])
        if rng.random() < 0.1:
            o["cluster_by"] = "numerical_factors"
        if rng.random() < 0.12:
            o["materializer"] = "narwhals"
            if o.get("output") == "sparse" and rng.random() < 0.5:
                o["output"] = "pandas"
        return o

    def formula_ref(allow_obj: bool = True) -> tuple[Any, int]:
        fi = rng.randrange(len(frecipes))
        if allow_obj and rng.random() < 0.5:
            # a shared Formula object
            existing = [i for i, s in sym.items() if s["kind"] == "F" and s["fi"] == fi and not s.get("custom_parser")]
            if existing and rng.random() < 0.7:
                return rng.choice(existing), fi
            fid = new("F", fi=fi)
            ops.append({"op": "parse", "out": fid, "fi": fi, "client": rng.randrange(nclients)})
            return fid, fi
        return {"lit": fi}, fi

    def data_ref() -> str:
        return rng.choice([d for d in datas if d != "DX"] + [d for d in datas if d.startswith("D") and d[1:].isdigit()])

    def maybe_drop() -> Optional[str]:
        if not enable["drops"] or rng.random() > 0.35:
            return None
        x = pick("X")
        if x is None or rng.random() < 0.3:
            x = new("X")
            ops.append({"op": "newdrop", "out": x, "init": sorted(rng.sample(range(6), rng.randint(0, 2))), "client": rng.randrange(nclients)})
        return x

    enable["ephemeral"] = swarm.random() < 0.5
    enable["touch"] = swarm.random() < 0.4
    nops = rng.randint(10, 36)
    guard = 0
    while len(ops) < nops and guard < 400:
        guard += 1
        c = rng.randrange(nclients)
        kind = core.weighted(rng, [("build", 6), ("reuse", 9), ("make_spec", 2.5 if enable["unfitted"] else 0), ("derive", 4 if enable["derive"] else 0),
                                   ("read", 1.5), ("parse_custom", 1 if enable["parsers"] else 0), ("bad", 1.5 if enable["bad_input"] else 0),
                                   ("touch_data", 1.2 if enable["touch"] else 0)])
        if kind == "touch_data":
            cands = [d for d, r in datas.items() if r["container"] == "pandas" and d[1:].isdigit()]
            numc = [c_ for c_ in u["cols"] if u["cols"][c_]["kind"] == "float"]
            if cands and numc:
                ops.append({"op": "touch_data", "data": rng.choice(cands), "col": rng.choice(numc), "delta": rng.choice([0.5, -1.0, 2.0]), "client": c})
            continue
        fault = None
        if kind in ("build", "reuse") and enable["interrupt"] and rng.random() < 0.12:
            fault = {"kind": "interrupt", "at": rng.randint(1, 4000)}
        if kind == "build":
            fref, fi = formula_ref()
            entry = core.weighted(rng, [("model_matrix", 4), ("formula.gmm", 2), ("from_spec", 1), ("client_fn", 2 if enable["client_fn"] else 0)])
            structured = frecipes[fi]["form"] != "simple"
            mm, sp = new("M", structured=structured), new("S", fitted=True, structured=structured, fi=fi)
            op = {"op": "build", "formula": fref, "data": data_ref(), "opts": opts(), "entry": entry, "ctx": rng.choice(["C0", "C1"]),
                  "out_mm": mm, "out_spec": sp, "drop": maybe_drop(), "client": c}
            if enable["user_exc"] and isinstance(fref, dict) and isinstance(frecipes[fi]["spec"], str) and rng.random() < 0.15:
                op["append"] = " + flaky(x)"
                op["fault"] = {"kind": "user_exc", "at": 1}
            elif fault:
                op["fault"] = fault
            ops.append(op)
        elif kind == "reuse":
            src = pick("S") if rng.random() < 0.8 else pick("M")
            if src is None:
                continue
            s = sym[src]
            structured = s.get("structured", False)
            entry = rng.choice(["spec.gmm", "sugar"])
            ov = {}
            if rng.random() < 0.15 and entry == "spec.gmm" and not structured:
                ov = {"output": rng.choice(["numpy", "pandas", "sparse"])}
            mm, sp = new("M", structured=structured), new("S", fitted=True, structured=structured, fi=s.get("fi"))
            op = {"op": "reuse", "src": src, "data": data_ref(), "entry": entry, "overrides": ov, "ctx": rng.choice(["C0", "C1"]),
                  "out_mm": mm, "out_spec": sp, "drop": maybe_drop() if not ov else None, "client": c}
            if fault:
                op["fault"] = fault
            ops.append(op)
        elif kind == "make_spec":
            fref, fi = formula_ref()
            structured = frecipes[fi]["form"] != "simple"
            sp = new("S", fitted=False, structured=structured, fi=fi)
            ops.append({"op": "make_spec", "formula": fref, "opts": opts(), "out": sp, "how": "ctor" if not structured and rng.random() < 0.6 else "from_spec", "client": c})
        elif kind == "derive":
            src = pick("S")
            if src is None:
                continue
            s = sym[src]
            how = core.weighted(rng, [("pickle", 3), ("copy", 1), ("deepcopy", 1), ("update", 3), ("subset", 2 if s.get("fitted") and not s.get("structured") else 0)])
            out = new("S", fitted=s.get("fitted"), structured=s.get("structured"), fi=s.get("fi"))
            op = {"op": "derive", "src": src, "how": how, "out": out, "client": c}
            if how == "pickle":
                op["protocol"] = rng.choice([2, 3, 4, 5])
            if how == "subset":
                op["pick"] = [rng.random() < 0.6 for _ in range(10)]
            ops.append(op)
        elif kind == "read":
            src = pick("S", lambda s: s.get("fitted"))
            if src is None:
                continue
            ops.append({"op": "read", "src": src, "client": c})
        elif kind == "parse_custom":
            fi = rng.randrange(len(frecipes))
            if not isinstance(frecipes[fi]["spec"], str):
                continue
            fid = new("F", fi=fi, custom_parser=True)
            pcfg: dict[str, Any] = {"include_intercept": rng.random() < 0.5}
            if rng.random() < 0.6:
                pcfg["feature_flags"] = rng.choice([[], ["twosided"], ["all"], ["multipart"], ["twosided", "multipart", "multistage"]])
            ops.append({"op": "parse", "out": fid, "fi": fi, "parser": pcfg, "ordering": rng.choice(["degree", "none", "sort"]), "client": c})
        elif kind == "bad":
            which = rng.choice(["missing_col", "na_raise", "bad_formula", "unknown_name"])
            if which == "missing_col":
                src = pick("S", lambda s: s.get("fitted"))
                if src is None:
                    continue
                mm, sp = new("M"), new("S", fitted=True)
                ops.append({"op": "reuse", "src": src, "data": "DX", "entry": "spec.gmm", "overrides": {}, "ctx": "C0", "out_mm": mm, "out_spec": sp, "drop": maybe_drop(),
                            "fault": {"kind": "bad_input", "which": which}, "client": c})
            elif which == "na_raise":
                fref, fi = formula_ref(allow_obj=False)
                mm, sp = new("M"), new("S", fitted=True, fi=fi)
                ops.append({"op": "build", "formula": fref, "data": data_ref(), "opts": {"na_action": "raise"}, "entry": "model_matrix", "ctx": "C0", "out_mm": mm, "out_spec": sp,
                            "drop": maybe_drop(), "fault": {"kind": "bad_input", "which": which}, "client": c})
            elif which == "bad_formula":
                mm, sp = new("M"), new("S", fitted=True)
                ops.append({"op": "build", "formula": {"raw": rng.choice(["x +", "x + (z", "a ~ b ~ c ~", "x:", "1 +* x"])}, "data": data_ref(), "opts": {}, "entry": "model_matrix", "ctx": "C0",
                            "out_mm": mm, "out_spec": sp, "drop": None, "fault": {"kind": "bad_input", "which": which}, "client": c})
            else:
                mm, sp = new("M"), new("S", fitted=True)
                ops.append({"op": "build", "formula": {"raw": "x + not_a_column"}, "data": data_ref(), "opts": {}, "entry": "model_matrix", "ctx": "C0",
                            "out_mm": mm, "out_spec": sp, "drop": maybe_drop(), "fault": {"kind": "bad_input", "which": which}, "client": c})
    if enable["ephemeral"]:
        for o in ops:
            if o["op"] in ("build", "reuse") and rng.random() < 0.5:
                o["fresh_data"] = True  # the caller builds a new frame object for this call and drops it afterwards
    return {"universe": u, "datas": datas, "contexts": contexts, "formulas": frecipes, "ops": ops, "clients": nclients,
            "np_seed": rng.getrandbits(31), "probe_data": "D0"}


# =============================================================================
# op interpreter (used identically by the history process and the pristine child)
# =============================================================================


class Flaky(Exception):
    pass


class Interrupt(BaseException):
    """Models an asynchronous MemoryError / KeyboardInterrupt raised at an arbitrary line."""


def shared_context_values(recipe: dict) -> dict:
    """Caller-owned values that persist across the calls of one side (history or pristine child)."""
    fn = {"double": (lambda x: x * 2), "square": (lambda x: x * x), "shift": (lambda x: x + 1)}[recipe["myfun"]]
    vals: dict[str, Any] = {"const": recipe["const"], "myfun": fn, "knots": list(recipe.get("knots", [-0.5, 0.5])), **world.user_context()}
    from formulaic.transforms.contrasts import SumContrasts

    vals["contr_obj"] = SumContrasts()
    sh = recipe.get("shadow")
    if sh == "center":
        vals["center"] = lambda x: x - 1.0
    elif sh == "scale":
        vals["scale"] = lambda x: x / 2.0
    elif sh == "poly":
        vals["poly"] = lambda x, degree=1, raw=False: x ** degree
    return vals


def make_context(shared: dict, fault: Optional[dict]) -> dict:
    ctx: dict[str, Any] = dict(shared)
    count = [0]
    at = fault["at"] if fault and fault.get("kind") == "user_exc" else None

    def flaky(x):
        count[0] += 1
        if at is not None and count[0] >= at:
            raise Flaky("injected user exception")
        return x

    ctx["flaky"] = flaky
    ctx["__flaky_count__"] = count
    ticks = [0]

    def tick(x):
        ticks[0] += 1
        return x + 0.001 * ticks[0]

    ctx["tick"] = tick
    return ctx


def client_fn_call(spec: Any, data: Any, opts: dict, ctx: dict, drop: Any) -> Any:
    """A client function whose *locals* are the context (default frame capture, context=0)."""
    from formulaic import model_matrix

    const = ctx["const"]  # noqa: F841
    myfun = ctx["myfun"]  # noqa: F841
    flaky = ctx["flaky"]  # noqa: F841
    usr_center, usr_sq, usr_offset, knots, vec, ft = ctx["usr_center"], ctx["usr_sq"], ctx["usr_offset"], ctx["knots"], ctx["vec"], ctx["ft"]  # noqa: F841
    contr_obj, tick = ctx["contr_obj"], ctx["tick"]  # noqa: F841
    if "center" in ctx:
        center = ctx["center"]  # noqa: F841
    if "scale" in ctx:
        scale = ctx["scale"]  # noqa: F841
    if "poly" in ctx:
        poly = ctx["poly"]  # noqa: F841
    if drop is not None:
        return model_matrix(spec, data, drop_rows=drop, **opts)
    return model_matrix(spec, data, **opts)


class World:
    """Lazily materialised shared objects of one side (history or pristine child)."""

    def __init__(self, sc: dict):
        self.sc = sc
        self.data: dict[str, Any] = {}
        self.ctx: dict[str, dict] = {}
        self.vecs: dict[str, Any] = {}

    def get_vec(self, data_name: str) -> Any:
        """A caller-owned float64 array with one entry per row of the data object (persists across the side's calls)."""
        import numpy as np

        if data_name not in self.vecs:
            n = len(self.sc["datas"][data_name]["ids"])
            self.vecs[data_name] = np.round(np.random.Generator(np.random.PCG64(core.h64("vec", data_name) % (2**32))).normal(size=n), 3).astype(np.float64)
        return self.vecs[data_name]

    def get_ctx(self, name: str) -> dict:
        if name not in self.ctx:
            self.ctx[name] = shared_context_values(self.sc["contexts"][name])
        return self.ctx[name]

    def build_data(self, name: str, edits: list) -> Any:
        """A brand-new data object from the recipe with the caller's in-place edits re-applied."""
        saved = self.data.pop(name, None)
        try:
            obj = self.get_data(name)
        finally:
            self.data.pop(name, None)
            if saved is not None:
                self.data[name] = saved
        for e in edits:
            obj[e["col"]] = obj[e["col"]] + e["delta"]
        return obj

    def get_data(self, name: str) -> Any:
        if name not in self.data:
            r = self.sc["datas"][name]
            obj = world.take(self.sc["universe"], r["ids"], container=r["container"], index=r["index"], mutate=r.get("mutate"))
            if r.get("drop_col"):
                obj = obj.drop(columns=[r["drop_col"]])
            if r.get("without"):
                keep = [c for c in self.sc["universe"]["cols"] if c not in r["without"]]
                obj = world.take(self.sc["universe"], r["ids"], container=r["container"], index=r["index"], mutate=r.get("mutate"), keep_cols=keep)
            self.data[name] = obj
        return self.data[name]


def formula_value(sc: dict, ref: Any, objs: dict, append: str = "") -> Any:
    if isinstance(ref, str):
        return objs[ref]
    if "raw" in ref:
        return ref["raw"]
    spec = world.spec_to_python(sc["formulas"][ref["lit"]]["spec"])
    if append and isinstance(spec, str):
        spec = spec + append
    return spec


def op_inputs(op: dict) -> list[str]:
    ins = []
    k = op["op"]
    if k in ("build", "make_spec") and isinstance(op["formula"], str):
        ins.append(op["formula"])
    if k in ("reuse", "derive", "read"):
        ins.append(op["src"])
    if op.get("drop"):
        ins.append(op["drop"])
    return ins


def op_outputs(op: dict) -> list[str]:
    k = op["op"]
    if k in ("build", "reuse"):
        return [op["out_mm"], op["out_spec"]]
    if k in ("parse", "make_spec", "derive", "newdrop"):
        return [op["out"]]
    return []


def op_data(sc: dict, op: dict, w: World, all_ops: Optional[list], seq: Optional[int]) -> Any:
    """The data object of a build/reuse call.  The shared object normally; a brand-new equal object when the caller rebuilt
    its frame for this call (``fresh_data``).  In a pristine child (all_ops given) the caller's earlier in-place edits of the
    shared frame are re-applied to a fresh object."""
    name = op["data"]
    if all_ops is not None:
        edits = [o for o in all_ops[:seq] if o["op"] == "touch_data" and o["data"] == name and o.get("_applied")]
        key = (name, len(edits))
        cache = w.__dict__.setdefault("versions", {})
        if key not in cache:
            cache[key] = w.build_data(name, edits)
        return cache[key]
    if op.get("fresh_data"):
        return w.build_data(name, w.__dict__.setdefault("edits", {}).get(name, []))
    return w.get_data(name)


def apply_op(sc: dict, op: dict, objs: dict, w: World, tracer: Any = None, all_ops: Optional[list] = None, seq: Optional[int] = None) -> dict:
    """Perform one whole call.  Returns {'status','digest','products','err'}; never raises for library errors."""
    import formulaic
    from formulaic import Formula, ModelSpec, model_matrix
    from formulaic.parser import DefaultFormulaParser
    from formulaic.utils.structured import Structured

    k = op["op"]
    products: dict[str, Any] = {}
    held: dict[str, Any] = {}

    def ctx_mutated() -> bool:
        if "ctx" not in held:
            return False
        ctx, snap = held["ctx"]
        return list(ctx) != list(snap) or any(ctx[kk] is not snap[kk] for kk in snap)

    try:
        with warnings.catch_warnings(record=True) as wl:
            warnings.simplefilter("always")
            if k == "touch_data":
                # the CALLER edits a column of its own shared frame in place (same object identity)
                df_ = w.get_data(op["data"])
                df_[op["col"]] = df_[op["col"]] + op["delta"]
                w.__dict__.setdefault("edits", {}).setdefault(op["data"], []).append({"col": op["col"], "delta": op["delta"]})
                dig: Any = ["touched", op["data"], op["col"]]
            elif k == "newdrop":
                products[op["out"]] = set(op["init"])
                dig = sorted(op["init"])
            elif k == "parse":
                spec = world.spec_to_python(sc["formulas"][op["fi"]]["spec"])
                if op.get("parser"):
                    pcfg = dict(op["parser"])
                    if "feature_flags" in pcfg:
                        pcfg["feature_flags"] = set(pcfg["feature_flags"])
                    f = Formula(spec, _parser=DefaultFormulaParser(**pcfg), _ordering=op.get("ordering", "degree"))
                else:
                    f = Formula(spec)
                products[op["out"]] = f
                dig = formula_digest(f, Structured)
            elif k == "make_spec":
                fv = formula_value(sc, op["formula"], objs)
                if op["how"] == "ctor":
                    s = ModelSpec(formula=Formula(fv) if not isinstance(fv, formulaic.Formula) else fv, **op["opts"])
                else:
                    s = ModelSpec.from_spec(fv, **op["opts"])
                products[op["out"]] = s
                dig = spec_digest(s, Structured)
            elif k == "build":
                fv = formula_value(sc, op["formula"], objs, op.get("append", ""))
                data = op_data(sc, op, w, all_ops, seq)
                ctx = make_context(w.get_ctx(op["ctx"]), op.get("fault"))
                ctx["vec"] = w.get_vec(op["data"])
                held["ctx"] = (ctx, dict(ctx))
                drop = objs[op["drop"]] if op.get("drop") else None
                kw = dict(op["opts"])
                if tracer:
                    tracer.start()
                try:
                    if op["entry"] == "model_matrix":
                        mm = model_matrix(fv, data, context=ctx, drop_rows=drop, **kw)
                    elif op["entry"] == "formula.gmm":
                        fobj = fv if isinstance(fv, formulaic.Formula) else Formula(fv)
                        mm = fobj.get_model_matrix(data, context=ctx, drop_rows=drop, **kw)
                    elif op["entry"] == "from_spec":
                        mm = ModelSpec.from_spec(fv, **kw).get_model_matrix(data, context=ctx, drop_rows=drop)
                    else:
                        mm = client_fn_call(fv, data, kw, ctx, drop)
                finally:
                    if tracer:
                        tracer.stop()
                products[op["out_mm"]] = mm
                products[op["out_spec"]] = mm.model_spec
                dig = {"mm": matrix_digest(mm, Structured), "drop": sorted(drop) if drop is not None else None, "warn": sorted({x.category.__name__ for x in wl})}
            elif k == "reuse":
                src = objs[op["src"]]
                data = op_data(sc, op, w, all_ops, seq)
                ctx = make_context(w.get_ctx(op["ctx"]), op.get("fault"))
                ctx["vec"] = w.get_vec(op["data"])
                held["ctx"] = (ctx, dict(ctx))
                drop = objs[op["drop"]] if op.get("drop") else None
                if tracer:
                    tracer.start()
                try:
                    if op["entry"] == "sugar":
                        mm = model_matrix(src, data, context=ctx, drop_rows=drop, **op.get("overrides", {}))
                    else:
                        spec = src.model_spec if hasattr(src, "model_spec") else src
                        if op.get("overrides"):
                            mm = spec.get_model_matrix(data, context=ctx, **op["overrides"])
                        else:
                            mm = spec.get_model_matrix(data, context=ctx, drop_rows=drop)
                finally:
                    if tracer:
                        tracer.stop()
                products[op["out_mm"]] = mm
                products[op["out_spec"]] = mm.model_spec
                dig = {"mm": matrix_digest(mm, Structured), "drop": sorted(drop) if drop is not None else None, "warn": sorted({x.category.__name__ for x in wl})}
            elif k == "derive":
                src = objs[op["src"]]
                how = op["how"]
                if how == "pickle":
                    out = pickle.loads(pickle.dumps(src, protocol=op["protocol"]))
                elif how == "copy":
                    out = copy.copy(src)
                elif how == "deepcopy":
                    out = copy.deepcopy(src)
                elif how == "update":
                    out = src.update() if isinstance(src, ModelSpec) else ModelSpec.from_spec(src)
                elif how == "subset":
                    terms = list(src.terms)
                    sel = [t for t, p in zip(terms, op["pick"]) if p] or terms[:1]
                    out = src.subset(sel)
                else:
                    raise ValueError(how)
                products[op["out"]] = out
                dig = spec_digest(out, Structured)
            elif k == "read":
                dig = spec_read(objs[op["src"]], Structured)
            else:
                raise ValueError(k)
        return {"status": "ok", "digest": dig, "products": products, "err": None, "ctx_mutated": ctx_mutated()}
    except Interrupt:
        return {"status": "interrupted", "digest": None, "products": {}, "err": "Interrupt", "ctx_mutated": ctx_mutated()}
    except Exception as e:  # noqa: BLE001
        return {"status": "failed", "digest": None, "products": {}, "err": f"{type(e).__name__}: {str(e)[:160]}", "errclass": type(e).__name__,
                "ctx_mutated": ctx_mutated()}


# ---- digests -----------------------------------------------------------------


def walk(obj: Any, Structured: Any, path: tuple = ()) -> list:
    if isinstance(obj, Structured):
        out = []
        for k, v in obj._to_dict(recurse=False).items():
            out.extend(walk(v, Structured, path + (k,)))
        return out
    if isinstance(obj, tuple):
        out = []
        for i, v in enumerate(obj):
            out.extend(walk(v, Structured, path + (i,)))
        return out
    return [(path, obj)]


def _md5(b: bytes) -> str:
    return hashlib.md5(b).hexdigest()[:16]


def one_matrix_digest(m: Any) -> Any:
    import numpy as np
    import pandas as pd
    import scipy.sparse as sp

    raw = getattr(m, "__wrapped__", m)
    spec = getattr(m, "model_spec", None)
    out: dict[str, Any] = {"type": type(raw).__module__.split(".")[0] + "." + type(raw).__name__}
    if isinstance(raw, pd.DataFrame):
        out["columns"] = [str(c) for c in raw.columns]
        out["dtypes"] = [str(t) for t in raw.dtypes]
        out["index"] = _md5(repr([repr(i) for i in raw.index]).encode())
        arr = raw.to_numpy()
    elif sp.issparse(raw):
        arr = raw.toarray()
        out["format"] = raw.format
    elif isinstance(raw, np.ndarray):
        arr = raw
    else:
        pdf = raw.to_pandas()
        out["columns"] = [str(c) for c in pdf.columns]
        arr = pdf.to_numpy()
    out["shape"] = list(arr.shape)
    out["dtype"] = str(arr.dtype)
    try:
        out["values"] = _md5(np.ascontiguousarray(arr.astype(np.float64)).tobytes())
    except (TypeError, ValueError):
        out["values"] = _md5(repr(arr.tolist()).encode())
    if spec is not None:
        try:
            out["spec_columns"] = list(spec.column_names)
        except Exception as e:  # noqa: BLE001
            out["spec_columns"] = "unavailable:" + type(e).__name__
    return out


def matrix_digest(mm: Any, Structured: Any) -> Any:
    return [[list(map(str, p)), one_matrix_digest(leaf)] for p, leaf in walk(mm, Structured)]


def formula_digest(f: Any, Structured: Any) -> Any:
    out = []
    for p, leaf in walk(f, Structured):
        terms = [[[fa.expr, fa.kind.value, fa.eval_method.value] for fa in t.factors] for t in leaf]
        out.append([list(map(str, p)), repr(leaf), terms, sorted(str(v) for v in leaf.required_variables)])
    return out


def spec_digest(s: Any, Structured: Any) -> Any:
    out = []
    for p, leaf in walk(s, Structured):
        d = {"formula": repr(leaf.formula), "materializer": leaf.materializer, "output": leaf.output, "efr": leaf.ensure_full_rank,
             "na": leaf.na_action.value, "cluster": leaf.cluster_by.value, "fitted": leaf.structure is not None}
        if leaf.structure is not None:
            d["columns"] = list(leaf.column_names)
        out.append([list(map(str, p)), d])
    return out


def spec_read(s: Any, Structured: Any) -> Any:
    """Read the metadata properties (this also warms every cached_property before later derivations)."""
    out = []
    for p, leaf in walk(s, Structured):
        d: dict[str, Any] = {}
        d["column_names"] = list(leaf.column_names)
        d["column_indices"] = sorted(leaf.column_indices.items())
        d["term_indices"] = [[str(t), v] for t, v in leaf.term_indices.items()]
        d["term_slices"] = [[str(t), [v.start, v.stop]] for t, v in leaf.term_slices.items()]
        d["term_factors"] = sorted([str(t), sorted(str(f) for f in fs)] for t, fs in leaf.term_factors.items())
        d["term_variables"] = sorted([str(t), sorted(str(v) for v in vs)] for t, vs in leaf.term_variables.items())
        d["variables"] = sorted(str(v) for v in leaf.variables)
        d["variable_indices"] = sorted([str(v), ix] for v, ix in leaf.variable_indices.items())
        d["variables_by_source"] = sorted([str(k), sorted(map(str, v))] for k, v in leaf.variables_by_source.items())
        d["required"] = sorted(str(v) for v in leaf.required_variables)
        d["factor_contrasts"] = sorted(str(f) for f in leaf.factor_contrasts)
        out.append([list(map(str, p)), d])
    return out


def data_digest(obj: Any) -> str:
    import numpy as np
    import pandas as pd

    if isinstance(obj, pd.DataFrame):
        parts = [repr(list(obj.columns)), repr([str(t) for t in obj.dtypes]), repr([repr(i) for i in obj.index])]
        for c in obj.columns:
            parts.append(repr(obj[c].tolist()))
            if isinstance(obj[c].dtype, pd.CategoricalDtype):
                parts.append(repr(list(obj[c].cat.categories)))
        return _md5("|".join(parts).encode())
    if isinstance(obj, np.recarray):
        return _md5((repr(obj.dtype) + repr(obj.tolist())).encode())
    if isinstance(obj, dict):
        parts = [repr(list(obj))]
        for k, v in obj.items():
            parts.append(type(v).__name__ + repr(np.asarray(v, dtype=object).tolist()))
        return _md5("|".join(parts).encode())
    return _md5((repr(obj.schema) + repr(obj.to_pydict())).encode())


# =============================================================================
# pristine child entry point
# =============================================================================


def oracle_eval(msg: dict) -> dict:
    """Runs in a freshly forked child of the template: rebuild the lineage, perform the target call."""
    import numpy as np

    sc = msg["scenario"]
    w = World(sc)
    objs: dict[str, Any] = {}
    for seq in msg["lineage"]:
        op = sc_op(sc, msg, seq)
        np.random.seed(core.h64("orc", sc["np_seed"], seq) % (2**32))
        r = apply_op(sc, op, objs, w, None, msg["all_ops"], seq)
        if r["status"] != "ok":
            return {"status": "lineage-failed", "at": seq, "err": r["err"]}
        objs.update(r["products"])
    op = msg["target"]
    np.random.seed(core.h64("orc", sc["np_seed"], msg["seq"]) % (2**32))
    r = apply_op(sc, op, objs, w, None, msg["all_ops"], msg["seq"])
    return {"status": r["status"], "digest": r["digest"], "err": r["err"], "errclass": r.get("errclass"), "hashseed": __import__("os").environ.get("PYTHONHASHSEED"),
            "factor_order": factor_order_probe(sc, op, objs)}


def sc_op(sc: dict, msg: dict, seq: int) -> dict:
    return msg["all_ops"][seq]


def factor_order_probe(sc: dict, op: dict, objs: dict) -> Any:
    """Order in which this process iterates the factor set of the op's formula (probe: is S1 really exercised?)."""
    try:
        from formulaic import Formula

        if op["op"] != "build":
            return None
        fv = formula_value(sc, op["formula"], objs, op.get("append", ""))
        f = fv if not isinstance(fv, (str, list, dict, tuple)) else Formula(fv)
        from formulaic.utils.structured import Structured

        fs = set()
        for _, leaf in walk(f, Structured):
            for t in leaf:
                fs.update(t.factors)
        return [x.expr for x in fs]
    except Exception:  # noqa: BLE001
        return None


# =============================================================================
# line-level interrupter
# =============================================================================


class Tracer:
    def __init__(self, at: int, root: str):
        self.at = at
        self.root = root
        self.count = 0
        self.fired = False
        self.active = False

    def start(self) -> None:
        self.active = True
        sys.settrace(self._global)

    def stop(self) -> None:
        self.active = False
        sys.settrace(None)

    def _global(self, frame, event, arg):
        if not self.active or self.fired:
            return None
        if frame.f_code.co_filename.startswith(self.root):
            return self._local
        return None

    def _local(self, frame, event, arg):
        if event == "line" and self.active and not self.fired:
            self.count += 1
            if self.count >= self.at:
                self.fired = True
                raise Interrupt()
        return self._local


# =============================================================================
# history execution
# =============================================================================


def worker_setup(env: Any, replay_meta: Optional[dict] = None) -> None:
    from sim.oracle import OracleClient

    if replay_meta and replay_meta.get("oracle_hashseed"):
        h2 = str(replay_meta["oracle_hashseed"])
    else:
        h2 = str(core.h64("oracle-hashseed", env.chunk_seed) % 4294967295)
        if h2 == env.hashseed:
            h2 = str((int(h2) + 1) % 4294967295)
    env.resources["oracle"] = OracleClient("checks.c18_purity", h2, str(VERIF))
    env.oracle_hashseed = h2


def replay_meta(env: Any) -> dict:
    return {"oracle_hashseed": env.oracle_hashseed}


def _same_seed_oracle(env: Any) -> Any:
    from sim.oracle import OracleClient

    if "oracle_same" not in env.resources:
        env.resources["oracle_same"] = OracleClient("checks.c18_purity", env.hashseed, str(VERIF))
    return env.resources["oracle_same"]


def bump(stats: dict, kind: str, key: str, n: int = 1) -> None:
    stats[kind][key] = stats[kind].get(key, 0) + n


def execute(scenario: dict, env: Any) -> dict:
    import_formulaic_checked()
    import numpy as np

    from formulaic.utils.structured import Structured

    sc = scenario
    oracle = env.resources["oracle"]
    calls0 = oracle.calls
    np_err0 = np.geterr()
    w = World(sc)
    objs: dict[str, Any] = {}
    lineage: dict[str, list[int]] = {}
    created_at: dict[str, int] = {}
    last_use: dict[str, int] = {}
    state_group: dict[str, str] = {}  # object id -> id of the group that may share state dicts
    group_touch: dict[str, list] = {}
    log: list = []
    stats: dict = {"ops": 0, "faults": {}, "probes": {}, "signatures": [], "nontrivial": [], "extra": {}}
    for p in ("unfitted_spec_built_on_two_datasets", "derived_spec_used_after_parent", "parent_used_after_derived", "structured_spec_reused", "restart_then_reuse",
              "alias_collision_path", "factor_order_differs_between_processes", "failed_op_followed_by_reuse_of_same_spec", "shared_drop_set_chain_len>=2",
              "captured_frame_client_fn", "caller_edited_shared_frame_in_place", "ephemeral_data_object"):
        stats["probes"][p] = 0
    state = {"step": -1, "nontrivial": False}
    sig: list = []
    violation = None
    inv: dict[str, Any] = {}  # invariants: digest at creation of every input object

    ops = list(sc["ops"])
    # final sweep: every pooled spec is exercised once more on a probe frame
    sweep_start = len(ops)

    def record_invariants() -> None:
        for name, obj in w.data.items():
            key = "data:" + name
            d = data_digest(obj)
            if key not in inv:
                inv[key] = d
            elif inv[key] != d:
                raise Violation("c18:input-mutated:data", {"data": name})
        for dname, vec in w.vecs.items():
            d = _md5(vec.tobytes())
            key = "vec:" + dname
            if key not in inv:
                n_ = len(sc["datas"][dname]["ids"])
                fresh = np.round(np.random.Generator(np.random.PCG64(core.h64("vec", dname) % (2**32))).normal(size=n_), 3).astype(np.float64)
                inv[key] = _md5(fresh.tobytes())
            if inv[key] != d:
                raise Violation("c18:input-mutated:context", {"why": "a caller-owned numpy array placed in the context was modified in place", "data": dname})
        if np.geterr() != np_err0:
            raise Violation("c18:process-state-changed", {"numpy.geterr": np.geterr(), "at_start": np_err0})
        for name, vals in w.ctx.items():
            rec = sc["contexts"][name]
            if vals["knots"] != list(rec.get("knots", [-0.5, 0.5])) or vals["const"] != rec["const"]:
                raise Violation("c18:input-mutated:context", {"context": name, "knots": vals["knots"], "recipe": rec})
        for oid, obj in objs.items():
            if oid[0] == "F":
                key = "formula:" + oid
                d = core.digest(formula_digest(obj, Structured))
                if key not in inv:
                    inv[key] = d
                elif inv[key] != d:
                    raise Violation("c18:input-mutated:formula", {"formula": oid})

    def compare(seq: int, op: dict, mine: dict) -> None:
        lin = sorted({s for i in op_inputs(op) for s in lineage.get(i, [])})
        msg = {"scenario": {k: v for k, v in sc.items() if k != "ops"}, "all_ops": ops, "lineage": lin, "target": op, "seq": seq}
        theirs = oracle.eval(msg)
        if "oracle_error" in theirs:
            raise RuntimeError("oracle error: " + theirs["oracle_error"])
        fo = theirs.get("factor_order")
        if fo is not None and len(fo) > 1:
            mine_fo = factor_order_probe(sc, op, objs)
            if mine_fo is not None and mine_fo != fo:
                bump(stats, "probes", "factor_order_differs_between_processes")
        a = (mine["status"], mine["digest"] if mine["status"] == "ok" else None)
        b = (theirs["status"], theirs["digest"] if theirs["status"] == "ok" else None)
        if a == b:
            return
        # triage: replay pristine under the history's own hash seed
        same = _same_seed_oracle(env).eval(msg)
        c = (same["status"], same["digest"] if same["status"] == "ok" else None)
        detail = {"op": {k: v for k, v in op.items() if k not in ("pick",)}, "lineage": lin,
                  "history": _short(mine), "pristine_other_seed": _short(theirs), "pristine_same_seed": _short(same),
                  "hashseeds": [env.hashseed, oracle.hashseed]}
        if c == a:
            raise Violation("c18:hash-seed-dependence", detail)
        raise Violation("c18:history-dependence", detail)

    try:
        seq = 0
        while seq < len(ops) or seq == sweep_start:
            if seq == sweep_start and len(ops) == sweep_start:
                for oid in sorted(objs, key=lambda x: (x[0], int(x[1:]))):
                    if oid[0] == "S":
                        ops.append({"op": "reuse", "src": oid, "data": sc["probe_data"], "entry": "spec.gmm", "overrides": {}, "ctx": "C0",
                                    "out_mm": f"M9{oid[1:]}", "out_spec": f"S9{oid[1:]}", "drop": None, "client": 0, "sweep": True})
                if len(ops) == sweep_start:
                    break
            op = ops[seq]
            state["step"] = seq
            stats["ops"] += 1
            ins = op_inputs(op)
            if any(i not in objs for i in ins):
                log.append([seq, op["op"], "skipped-missing-input"])
                seq += 1
                continue
            fault = op.get("fault")
            tracer = None
            if fault and fault["kind"] == "interrupt":
                tracer = Tracer(fault["at"], env.src_root + "/formulaic")
            np.random.seed(core.h64("hist", sc["np_seed"], seq) % (2**32))
            if op["op"] == "touch_data":
                mine = apply_op(sc, op, objs, w)
                if mine["status"] == "ok":
                    op["_applied"] = True
                    inv.pop("data:" + op["data"], None)  # the caller changed it: new reference digest
                    bump(stats, "probes", "caller_edited_shared_frame_in_place")
                sig.append(["touch_data"])
                log.append([seq, "touch_data", mine["status"]])
                record_invariants()
                seq += 1
                continue
            mine = apply_op(sc, op, objs, w, tracer)
            if op.get("fresh_data"):
                bump(stats, "probes", "ephemeral_data_object")
            if mine.get("ctx_mutated"):
                raise Violation("c18:input-mutated:context", {"op": op["op"], "why": "the context mapping passed by the caller gained/lost keys or had values rebound"})
            # ---- probes / signature
            src = op.get("src")
            tgt = src or (op["formula"] if isinstance(op.get("formula"), str) else None)
            grp = state_group.get(src) if src else None
            interposed = False
            if grp is not None:
                touches = group_touch.setdefault(grp, [])
                lu = last_use.get(src, created_at.get(src, -1))
                interposed = any(t_seq > lu and t_obj != src for t_seq, t_obj in touches) or any(t_seq > created_at.get(src, -1) and t_obj == src for t_seq, t_obj in touches if op["op"] == "reuse")
                touches.append((seq, src))
            sig.append([op["op"], len(lineage.get(tgt, [])) if tgt else 0, min(9, seq - created_at.get(tgt, seq)) if tgt else 0, interposed, (fault or {}).get("kind")])
            if interposed:
                state["nontrivial"] = True
            if op["op"] == "reuse" and src in objs:
                info = sc_info(objs, src)
                if info.get("unfitted") and last_use.get(src) is not None:
                    bump(stats, "probes", "unfitted_spec_built_on_two_datasets")
                if info.get("structured"):
                    bump(stats, "probes", "structured_spec_reused")
                if src in derived_from and last_use.get(derived_from[src]) is not None:
                    bump(stats, "probes", "derived_spec_used_after_parent")
                if any(derived_from.get(ch) == src for ch in last_use):
                    bump(stats, "probes", "parent_used_after_derived")
                if src in restarted:
                    bump(stats, "probes", "restart_then_reuse")
                if src in failed_on:
                    bump(stats, "probes", "failed_op_followed_by_reuse_of_same_spec")
            if op.get("entry") == "client_fn":
                bump(stats, "probes", "captured_frame_client_fn")
            if op["op"] in ("build",) and "`a b`" in repr(formula_value(sc, op["formula"], objs)) and "a_b" in sc["universe"]["cols"]:
                bump(stats, "probes", "alias_collision_path")
            for i in ins:
                last_use[i] = seq

            # ---- faults: what is relaxed
            if fault and fault["kind"] == "interrupt":
                if tracer.fired:
                    bump(stats, "faults", "interrupt")
                    if op.get("drop"):
                        objs.pop(op["drop"], None)
                    if src:
                        failed_on.add(src)
                    log.append([seq, op["op"], "interrupted"])
                    record_invariants()
                    seq += 1
                    continue
                # the trace never reached line k: this was an ordinary call
            if fault and fault["kind"] == "user_exc":
                if mine["status"] == "failed" and mine.get("errclass") in ("FactorEvaluationError", "Flaky"):
                    bump(stats, "faults", "user_exc")
            if fault and fault["kind"] == "bad_input" and mine["status"] == "failed":
                bump(stats, "faults", "bad_input:" + fault["which"])
            if mine["status"] == "failed":
                bump(stats, "extra", "failing_calls")
                if src:
                    failed_on.add(src)

            # ---- oracle: the same call in a pristine process under another hash seed
            compare(seq, op, mine)

            if mine["status"] == "ok":
                lin = sorted({s for i in ins for s in lineage.get(i, [])} | {seq})
                for oid, obj in mine["products"].items():
                    objs[oid] = obj
                    lineage[oid] = lin
                    created_at[oid] = seq
                if op.get("drop"):
                    lineage[op["drop"]] = sorted(set(lineage[op["drop"]]) | set(lin))
                    chain[op["drop"]] = chain.get(op["drop"], 0) + 1
                    if chain[op["drop"]] >= 2:
                        bump(stats, "probes", "shared_drop_set_chain_len>=2")
                # state-sharing groups (who may alias whose state dicts)
                k = op["op"]
                if k in ("build", "reuse"):
                    g = state_group.get(src) if (k == "reuse" and src) else None
                    state_group[op["out_spec"]] = g or op["out_spec"]
                    state_group[op["out_mm"]] = state_group[op["out_spec"]]
                elif k == "make_spec":
                    state_group[op["out"]] = op["out"]
                elif k == "derive":
                    derived_from[op["out"]] = src
                    if op["how"] in ("update", "subset", "copy"):
                        state_group[op["out"]] = state_group.get(src, src)
                    else:
                        state_group[op["out"]] = op["out"]
                        restarted.add(op["out"])
            else:
                if op.get("drop"):
                    objs.pop(op["drop"], None)  # retired: how far it was filled depends on set order
            log.append([seq, op["op"], mine["status"], core.digest(mine["digest"]) if mine["status"] == "ok" else "failed"])
            record_invariants()
            seq += 1
    except Violation as v:
        violation = {"clause": v.clause, "step": state["step"], "detail": v.detail}
    s = core.digest(sig)
    stats["signatures"] = [s]
    if state["nontrivial"]:
        stats["nontrivial"] = [s]
    stats["extra"]["oracle_calls"] = oracle.calls - calls0
    stats["sample"] = {"clients": sc["clients"], "formulas": [f["spec"] for f in sc["formulas"]],
                       "ops": [{k: v for k, v in o.items() if k not in ("pick", "opts")} for o in sc["ops"][:10]], "n_ops": len(sc["ops"]),
                       "hash_seeds": [env.hashseed, oracle.hashseed]}
    return {"violation": violation, "log": log, "stats": stats}


# module-level scratch used inside execute (reset per run)
derived_from: dict[str, str] = {}
restarted: set = set()
failed_on: set = set()
chain: dict[str, int] = {}

_execute_inner = execute


def execute(scenario: dict, env: Any) -> dict:  # noqa: F811
    derived_from.clear()
    restarted.clear()
    failed_on.clear()
    chain.clear()
    return _execute_inner(scenario, env)


def sc_info(objs: dict, oid: str) -> dict:
    from formulaic import ModelSpec

    o = objs[oid]
    if hasattr(o, "model_spec"):
        o = o.model_spec
    info = {}
    try:
        if isinstance(o, ModelSpec):
            info["unfitted"] = o.structure is None
        else:
            info["structured"] = True
    except Exception:  # noqa: BLE001
        pass
    return info


def _short(r: dict) -> Any:
    if r["status"] != "ok":
        return {"status": r["status"], "err": r.get("err")}
    d = r["digest"]
    return {"status": "ok", "digest": core.digest(d), "value": json_trim(d)}


def json_trim(d: Any, n: int = 900) -> str:
    s = core.jdump(d)
    return s if len(s) <= n else s[:n] + "..."


# =============================================================================
# shrinking support
# =============================================================================


def reduce(scenario: dict, keep: list[int]) -> Optional[dict]:
    sc = copy.deepcopy(scenario)
    ops = [scenario["ops"][i] for i in keep]
    have: set = set()
    out = []
    for op in ops:
        if any(i not in have for i in op_inputs(op)):
            continue
        have.update(op_outputs(op))
        out.append(copy.deepcopy(op))
    sc["ops"] = out
    return sc


def simplify(scenario: dict):
    sc = scenario
    for i, op in enumerate(sc["ops"]):
        if op.get("opts"):
            c = copy.deepcopy(sc)
            c["ops"][i]["opts"] = {}
            yield c
        if op.get("drop"):
            c = copy.deepcopy(sc)
            c["ops"][i]["drop"] = None
            yield c
        if op.get("entry") in ("client_fn", "formula.gmm", "from_spec"):
            c = copy.deepcopy(sc)
            c["ops"][i]["entry"] = "model_matrix"
            yield c
        if op.get("entry") == "sugar":
            c = copy.deepcopy(sc)
            c["ops"][i]["entry"] = "spec.gmm"
            yield c
    for name, d in sc["datas"].items():
        if d["container"] != "pandas":
            c = copy.deepcopy(sc)
            c["datas"][name]["container"] = "pandas"
            yield c
        if len(d["ids"]) > 6:
            c = copy.deepcopy(sc)
            c["datas"][name]["ids"] = d["ids"][: max(6, len(d["ids"]) // 2)]
            yield c
    for fi, f in enumerate(sc["formulas"]):
        spec = f["spec"]
        if isinstance(spec, str) and "~" not in spec and "|" not in spec:
            parts = [p.strip() for p in spec.split(" + ")]
            if len(parts) > 1:
                for j in range(len(parts)):
                    c = copy.deepcopy(sc)
                    c["formulas"][fi]["spec"] = " + ".join(parts[:j] + parts[j + 1:])
                    yield c


def features(scenario: dict, violation: dict) -> dict:
    kinds = [o["op"] for o in scenario["ops"]]
    return {"clause": violation["clause"], "op_kinds": sorted(set(kinds)), "n_ops": len(kinds),
            "uses_unfitted_spec": "make_spec" in kinds,
            "uses_backtick_alias_pair": any("`a b`" in repr(f["spec"]) for f in scenario["formulas"]) and "a_b" in scenario["universe"]["cols"]}

"""Pristine-process oracle (C18).

``OracleClient`` owns a *template* interpreter started with its own
PYTHONHASHSEED.  The template imports numpy/pandas/formulaic and the check
module and then only waits; it never calls into formulaic.  For every request
it forks a child which evaluates the request and returns the result through a
pipe.  The child has therefore never executed any other formulaic call:
module-level parsers, caches, default arguments, registries are all at their
import-time state ("first ever call" environment).

Run as a script this file is the template server:
    python sim/oracle.py <check module> <verif root>
Frames on stdin/stdout are 8-byte big-endian length + pickle.
"""

from __future__ import annotations

import os
import pickle
import struct
import subprocess
import sys
from typing import Any, Optional


def _read_exact(f, n: int) -> Optional[bytes]:
    buf = b""
    while len(buf) < n:
        chunk = f.read(n - len(buf))
        if not chunk:
            return None
        buf += chunk
    return buf


def read_frame(f) -> Any:
    head = _read_exact(f, 8)
    if head is None:
        return None
    (n,) = struct.unpack(">Q", head)
    body = _read_exact(f, n)
    if body is None:
        return None
    return pickle.loads(body)


def write_frame(f, obj: Any) -> None:
    body = pickle.dumps(obj, protocol=5)
    f.write(struct.pack(">Q", len(body)))
    f.write(body)
    f.flush()


class OracleClient:
    def __init__(self, module: str, hashseed: str, verif_root: str):
        env = dict(os.environ, PYTHONHASHSEED=str(hashseed), OMP_NUM_THREADS="1", OPENBLAS_NUM_THREADS="1", MKL_NUM_THREADS="1")
        self.hashseed = str(hashseed)
        self.proc = subprocess.Popen([sys.executable, os.path.abspath(__file__), module, verif_root], stdin=subprocess.PIPE, stdout=subprocess.PIPE, env=env)
        hello = read_frame(self.proc.stdout)
        if not hello or hello.get("hello") != self.hashseed:
            raise RuntimeError(f"oracle template failed to start: {hello!r}")
        self.calls = 0

    def eval(self, msg: Any) -> Any:
        write_frame(self.proc.stdin, msg)
        out = read_frame(self.proc.stdout)
        if out is None:
            raise RuntimeError("oracle template died")
        self.calls += 1
        return out

    def close(self) -> None:
        try:
            self.proc.stdin.close()
        except Exception:
            pass
        try:
            self.proc.wait(timeout=5)
        except Exception:
            self.proc.kill()


def serve(module: str, verif_root: str) -> None:
    import faulthandler
    import importlib

    faulthandler.enable()
    import warnings

    warnings.filterwarnings("ignore", message=".*multi-threaded, use of fork.*")
    sys.path.insert(0, verif_root)
    from sim.driver import import_formulaic_checked

    # heavy imports happen once, in the template; nothing below calls into formulaic
    import numpy  # noqa: F401
    import pandas  # noqa: F401
    import pyarrow  # noqa: F401
    import scipy.sparse  # noqa: F401

    import_formulaic_checked()
    import formulaic.materializers.narwhals  # noqa: F401
    mod = importlib.import_module(module)
    stdin, stdout = sys.stdin.buffer, sys.stdout.buffer
    write_frame(stdout, {"hello": os.environ.get("PYTHONHASHSEED")})
    while True:
        msg = read_frame(stdin)
        if msg is None:
            return
        r, w = os.pipe()
        pid = os.fork()
        if pid == 0:  # pristine child
            os.close(r)
            try:
                faulthandler.dump_traceback_later(60, exit=True)
                try:
                    res = mod.oracle_eval(msg)
                except BaseException as e:  # noqa: BLE001
                    import traceback

                    res = {"oracle_error": "".join(traceback.format_exception(type(e), e, e.__traceback__))[-3000:]}
                with os.fdopen(w, "wb") as f:
                    f.write(pickle.dumps(res, protocol=5))
            finally:
                os._exit(0)
        os.close(w)
        with os.fdopen(r, "rb") as f:
            data = f.read()
        os.waitpid(pid, 0)
        try:
            res = pickle.loads(data) if data else {"oracle_error": "child produced no output (crashed or timed out)"}
        except Exception as e:  # noqa: BLE001
            res = {"oracle_error": f"undecodable child output: {e!r}"}
        write_frame(stdout, res)


if __name__ == "__main__":
    serve(sys.argv[1], sys.argv[2])

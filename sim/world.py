"""World generation shared by the spec-replay machine (C04/C09) and the purity machine (C18).

Everything here is a *recipe*: plain JSON from which the object can be rebuilt
from nothing in any process.  Values come from ``numpy.random.Generator(PCG64)``
seeded from the recipe, never from Python hashing and never from the
process-wide numpy RNG (which is one of the nondeterminism sources under test).
"""

from __future__ import annotations

import random
import re
from typing import Any, Optional

from . import core

# column catalogue ------------------------------------------------------------
# name -> (kind, role)
NUMERIC = ["x", "z", "w"]
INT = ["k"]
TICKED = ["a b", "a_b", "a|b"]  # names that all sanitise to the identifier a_b (alias path, S2)
CATS = ["A", "B", "S", "N"]  # A: object text, B: pandas Categorical (declared order), S: pandas default text dtype, N: Categorical with NUMERIC levels
LEVELS = {
    "A": ["a", "b", "c", "d"],
    "B": ["lo", "mid", "hi", "top"],
    "S": ["p", "q", "r"],
    "N": [10, 20, 30],
}


def gen_universe(rng: random.Random, *, n_lo: int = 14, n_hi: int = 48, nulls: bool = True, ticked_p: float = 0.2,
                 text_default_p: float = 0.5) -> dict:
    """A universe of rows over a subset of the catalogue."""
    n = rng.randint(n_lo, n_hi)
    cols: dict[str, dict] = {}
    for name in NUMERIC:
        if name == "x" or rng.random() < 0.7:
            cols[name] = {
                "kind": "float",
                "ties": rng.random() < 0.3,
                "null_rate": (rng.choice([0.0, 0.0, 0.06, 0.12]) if nulls and name != "x" else (rng.choice([0.0, 0.0, 0.0, 0.05]) if nulls else 0.0)),
            }
    if rng.random() < 0.6:
        cols["k"] = {"kind": "int", "lo": 0, "hi": rng.choice([3, 4, 6])}
    if rng.random() < ticked_p:
        for name in TICKED[:2] + (TICKED[2:] if rng.random() < 0.4 else []):
            cols[name] = {"kind": "float", "ties": False, "null_rate": 0.0}
    if rng.random() < 0.3:
        cols["F"] = {"kind": "bool", "levels": [False, True]}
    ncat = 0
    for name in CATS:
        if rng.random() < 0.6 or (name == "A" and ncat == 0):
            nl = rng.randint(2, len(LEVELS[name]))
            levels = LEVELS[name][:nl]
            if name == "N" and rng.random() < 0.6:
                continue
            kind = {"A": "text_object", "B": "category", "S": "text_default" if rng.random() < text_default_p else "text_object", "N": "category"}[name]
            spec: dict[str, Any] = {"kind": kind, "levels": levels, "null_rate": rng.choice([0.0, 0.0, 0.08]) if nulls else 0.0}
            if name == "N":
                # numeric categories + a null make numpy read the column as float64, so hashed() stringifies 10 as '10.0' in frames
                # that contain a null and as '10' in frames that do not (hashed()/null handling is C06's listed hole): not generated
                spec["null_rate"] = 0.0
            if kind == "category":
                order = levels[:]
                if rng.random() < 0.5:
                    rng.shuffle(order)
                spec["declared"] = order
            cols[name] = spec
            ncat += 1
    return {"n": n, "seed": rng.getrandbits(32), "cols": cols}


_UCACHE: dict[str, Any] = {}


def universe_frame(u: dict) -> Any:
    """The universe as a pandas DataFrame (cached per recipe digest).  Index = row ids 0..n-1."""
    import numpy as np
    import pandas as pd

    key = core.digest(u)
    if key in _UCACHE:
        return _UCACHE[key]
    n = u["n"]
    data: dict[str, Any] = {}
    order = {nm: i for i, nm in enumerate(NUMERIC + INT + TICKED + CATS + ["F"])}
    for name in sorted(u["cols"], key=lambda nm: order.get(nm, 99)):
        c = u["cols"][name]
        g = np.random.Generator(np.random.PCG64([u["seed"], core.h64("col", name) % (2**32)]))
        kind = c["kind"]
        if kind == "float":
            if c.get("ties"):
                vals = g.integers(-8, 9, size=n).astype(float) / 2.0
            else:
                vals = np.round(g.normal(0.0, 2.0, size=n), 3)
            # guarantee spread so stateful numeric transforms are well conditioned
            vals[: min(4, n)] = np.array([-3.5, 3.5, -1.25, 1.75])[: min(4, n)]
            if c.get("null_rate", 0) > 0:
                mask = g.random(n) < c["null_rate"]
                mask[: min(6, n)] = False
                vals = np.where(mask, np.nan, vals)
            data[name] = pd.Series(vals, dtype="float64")
        elif kind == "int":
            data[name] = pd.Series(g.integers(c["lo"], c["hi"] + 1, size=n), dtype="int64")
        elif kind == "bool":
            v_ = g.integers(0, 2, size=n).astype(bool)
            v_[:2] = [False, True]
            data[name] = pd.Series(v_, dtype="bool")
        else:
            levels = c["levels"]
            idx = g.integers(0, len(levels), size=n)
            idx[: len(levels)] = np.arange(len(levels))  # every level occurs in the universe
            vals_l: list[Optional[str]] = [levels[i] for i in idx]
            if c.get("null_rate", 0) > 0:
                mask = g.random(n) < c["null_rate"]
                mask[: len(levels) + 2] = False
                vals_l = [None if m else v for v, m in zip(vals_l, mask)]
            if kind == "text_object":
                data[name] = pd.Series(vals_l, dtype=object)
            elif kind == "text_default":
                data[name] = pd.Series(vals_l, dtype="str")
            else:
                data[name] = pd.Series(pd.Categorical(vals_l, categories=c["declared"]))
    df = pd.DataFrame(data)
    _UCACHE[key] = df
    if len(_UCACHE) > 64:
        _UCACHE.pop(next(iter(_UCACHE)))
    return df


def _simframe_class() -> Any:
    import pandas as pd

    class SimFrame(pd.DataFrame):
        @property
        def _constructor(self):
            return SimFrame

    return SimFrame


class _LazySimFrame:
    cls: Any = None

    def __call__(self, df: Any) -> Any:
        if self.cls is None:
            self.cls = _simframe_class()
        return self.cls(df)


SimFrame = _LazySimFrame()


def take(u: dict, ids: list[int], *, container: str = "pandas", index: str = "rid", mutate: Optional[dict] = None, recat: Optional[int] = None,
         keep_cols: Optional[list] = None, int_as_float: bool = False) -> Any:
    """Build a data container holding universe rows ``ids`` (any subset / duplication / order).

    ``index``: 'rid' keeps row ids as labels (labels tied to content), 'range' gives a fresh RangeIndex,
    'str' gives string labels derived from row ids.  ``mutate`` applies a C09 data fault (see faults()).
    """
    import pandas as pd

    df = universe_frame(u).iloc[list(ids)].copy()
    if keep_cols is not None:
        df = df[[c for c in df.columns if c in set(keep_cols)]]  # the caller's frame only carries these columns
    if int_as_float:
        # the same whole numbers, read back as floats (e.g. from a CSV)
        for name in df.columns:
            if str(df[name].dtype) == "int64":
                df[name] = df[name].astype("float64")
    if recat is not None:
        # same values, same set of categories, different *declared order* of every category-dtype column
        for name in df.columns:
            if isinstance(df[name].dtype, pd.CategoricalDtype):
                cats = list(df[name].dtype.categories)
                random.Random(core.h64("recat", recat, name)).shuffle(cats)
                df[name] = pd.Series(pd.Categorical(df[name].to_numpy(dtype=object), categories=cats), index=df.index)
    if mutate:
        df = apply_fault(df, u, ids, mutate)
    if index == "range":
        df = df.reset_index(drop=True)
    elif index == "str":
        df.index = [f"r{i}" for i in ids]
    if container == "pandas":
        return df
    if container == "recarray":
        return df.to_records(index=False)
    if container == "pandas_sub":
        return SimFrame(df)  # a DataFrame subclass is not a registered input type: it is routed through the narwhals materializer
    if container == "dict":
        out: dict[str, Any] = {}
        for name in df.columns:
            s = df[name]
            if isinstance(s.dtype, pd.CategoricalDtype):
                out[name] = pd.Categorical(s.to_numpy(dtype=object), categories=s.dtype.categories)
            elif s.dtype == object:
                out[name] = s.to_numpy(dtype=object)
            elif isinstance(s.dtype, pd.StringDtype):
                out[name] = s.array
            else:
                out[name] = s.to_numpy()
        return out
    if container == "arrow":
        import pyarrow

        return pyarrow.Table.from_pandas(df.reset_index(drop=True), preserve_index=False)
    raise ValueError(container)


# ---- C09 data faults ---------------------------------------------------------


def apply_fault(df: Any, u: dict, ids: list[int], fault: dict) -> Any:
    import numpy as np
    import pandas as pd

    v = fault["var"]
    kind = fault["kind"]
    n = len(df)
    if fault.get("allnull") and kind == "cat_to_num":
        df[v] = pd.Series(np.full(n, np.nan), index=df.index, dtype="float64")  # entirely missing, read back as float64
    elif fault.get("allnull") and kind == "num_to_text":
        df[v] = pd.Series([None] * n, index=df.index, dtype=object)  # entirely missing text column
    elif kind == "cat_to_num":
        df[v] = pd.Series(np.round(np.linspace(-2.0, 2.0, n) if n > 1 else np.array([0.5]), 3), index=df.index, dtype="float64")
    elif kind == "num_to_text":
        words = ["foo", "bar", "baz", "qux"]
        vals = [words[(i * 7 + 3) % len(words)] for i in ids]
        dt = fault.get("dtype", "object")
        if dt == "object":
            df[v] = pd.Series(vals, index=df.index, dtype=object)
        elif dt == "str":
            df[v] = pd.Series(vals, index=df.index, dtype="str")
        elif dt == "arrow_dict":
            import pyarrow

            arr = pyarrow.array(vals).dictionary_encode()
            df[v] = pd.Series(pd.arrays.ArrowExtensionArray(arr), index=df.index)  # dictionary-encoded Arrow text (e.g. from parquet)
        elif dt == "arrow_str":
            import pyarrow

            df[v] = pd.Series(vals, index=df.index, dtype=pd.ArrowDtype(pyarrow.string()))  # e.g. read_csv(dtype_backend="pyarrow")
        else:
            df[v] = pd.Series(pd.Categorical(vals), index=df.index)
    elif kind == "level_alias":
        # same truth values, other type: True/False arrive as 1/0 (equal under ==, but not the recorded levels)
        if fault.get("as") == "bool":
            df[v] = pd.Series(df[v].to_numpy() > 0, index=df.index)  # whole numbers arrive as booleans (True == 1, but not the level 1)
        else:
            df[v] = pd.Series(df[v].to_numpy().astype("int64" if fault.get("as") != "float" else "float64"), index=df.index)
    elif kind == "level_gain":
        new = fault.get("level", "NEW")
        rows = fault.get("rows")
        if rows is None:
            rows = [j for j in range(n) if (ids[j] * 13 + fault.get("salt", 0)) % 3 == 0] or [0]
        col = df[v]
        news = [new] + ([fault["level2"]] if "level2" in fault else [])
        if isinstance(col.dtype, pd.CategoricalDtype):
            col = col.cat.add_categories([x for x in news if x not in list(col.dtype.categories)])
            for i_, j in enumerate(rows):
                col.iloc[j] = news[i_ % len(news)]
            df[v] = col
        else:
            vals = list(col.to_numpy(dtype=object))
            for i_, j in enumerate(rows):
                vals[j] = news[i_ % len(news)]
            dt = col.dtype if all(isinstance(x, str) for x in news) else object
            df[v] = pd.Series(vals, index=df.index, dtype=dt)
    else:
        raise ValueError(kind)
    return df


def gained_rows(ids: list[int], fault: dict) -> list[int]:
    rows = [j for j in range(len(ids)) if (ids[j] * 13 + fault.get("salt", 0)) % 3 == 0] or [0]
    return rows


# ---- formulas ----------------------------------------------------------------


def q(name: str) -> str:
    return name if name.isidentifier() else f"`{name}`"


def numeric_atoms(rng: random.Random, v: str, *, rich: bool = True) -> dict:
    """One atom over numeric variable ``v``."""
    n = q(v)
    table = [
        ("lookup", 6), ("center", 4), ("scale", 3), ("standardize", 2), ("poly", 3), ("bs", 3), ("cr", 2), ("cc", 1), ("cs", 1),
        ("I", 2), ("np", 2), ("brace", 1), ("Q", 1), ("Cnum", 1), ("scale_nc", 1), ("usr_center", 1.5), ("usr_sq", 1), ("usr_offset", 0.7), ("nested", 2.5), ("attr_alias", 1.2),
    ]
    kind = core.weighted(rng, table if rich else table[:4])
    a: dict[str, Any] = {"vars": [v], "kind": "num", "cls": "num_py", "stateful": False, "bounded": False, "mean_based": False}
    if kind == "lookup":
        a.update(expr=n, cls="lookup")
    elif kind == "center":
        a.update(expr=f"center({n})", stateful=True, mean_based=True)
    elif kind == "scale":
        a.update(expr=f"scale({n})", stateful=True, mean_based=True)
    elif kind == "scale_nc":
        a.update(expr=f"scale({n}, center=False)", stateful=True, mean_based=True)
    elif kind == "standardize":
        a.update(expr=f"standardize({n})", stateful=True, mean_based=True)
    elif kind == "poly":
        d = rng.randint(1, 3)
        raw = rng.random() < 0.25
        a.update(expr=f"poly({n}, degree={d}{', raw=True' if raw else ''})" if d > 1 or raw else f"poly({n})", stateful=not raw, mean_based=not raw)
    elif kind == "bs":
        deg = rng.choice([1, 2, 3, 3])
        df_ = deg + rng.randint(0, 3)
        extra = rng.choice(["", "", ", extrapolation='clip'", ", extrapolation='extend'", ", include_intercept=True"])
        if "include_intercept" in extra:
            df_ += 1
        a.update(expr=f"bs({n}, df={df_}, degree={deg}{extra})", stateful=True, bounded=("extrapolation" not in extra))
    elif kind in ("cr", "cs", "cc"):
        df_ = rng.randint(3, 5)
        extra = rng.choice(["", "", ", constraints='center'"])
        if kind == "cc" and rng.random() < 0.35:
            extra += ", lower_bound=0, upper_bound=2.5"  # a period shorter than the data range: values are wrapped
        a.update(expr=f"{kind}({n}, df={df_}{extra})", stateful=True, mean_based=("constraints='center'" in extra))  # NaN constraint from one null
    elif kind == "I":
        a.update(expr=rng.choice([f"I({n}**2)", f"I({n})", f"I({n} + 1)"]))
        if a["expr"] == f"I({n})":
            a["cls"] = "ident"
    elif kind == "np":
        a.update(expr=rng.choice([f"np.log({n} + 20)", f"exp({n} / 10)", f"np.abs({n})", f"log10({n} * {n} + 1)"]))
    elif kind == "brace":
        a.update(expr=rng.choice(["{%s * 2}" % n, "{%s}" % n]))
        if a["expr"] == "{%s}" % n:
            a["cls"] = "ident"
    elif kind == "Q":
        a.update(expr=f"Q('{v}')", cls="ident")
    elif kind == "Cnum":
        if v == "k":
            a.update(expr=f"C({n})", cls="C", kind="cat")
        else:
            # C() of a continuous column has one level per distinct value: interactions of two of them are thousands of
            # columns wide and a single run then takes minutes; whole-number columns only
            a.update(expr=n, cls="lookup")
    elif kind == "nested":
        # a stateful call nested inside a larger factor (its state key is the inner call, not the factor)
        a.update(expr=rng.choice([f"scale(center({n}))", f"I(center({n}) ** 2)", f"exp(scale({n}) / 4)", f"np.abs(standardize({n}))",
                                  f"poly(center({n}), degree=2)", f"center(log({n} * {n} + 1))", f"I(scale({n}, center=False) + poly({n})[:, 0])",
                                  f"I(center({n}) * center({n}))", f"I(scale({n}) - scale({n}) ** 2)"]),
                 stateful=True, mean_based=True)
    elif kind == "attr_alias":
        # a built-in stateful transform reached through an attribute of an object in the caller's context
        a.update(expr=rng.choice([f"ft.center({n})", f"ft.scale({n})", f"ft.poly({n}, 2)", f"ft.bs({n}, df=4, extrapolation='clip')"]), stateful=True, mean_based=True, ctx=True)
    elif kind == "usr_center":
        a.update(expr=f"usr_center({n})", stateful=True, mean_based=True, ctx=True)
    elif kind == "usr_sq":
        a.update(expr=f"usr_sq({n})", ctx=True)
    elif kind == "usr_offset":
        a.update(expr=f"I({n} + usr_offset)", ctx=True)
    return a


def user_context() -> dict:
    """The caller's context mapping: a user-defined *stateful* transform, a stateless callable and a constant.
    Rebuilt from scratch for every call (a restarted process has fresh function objects)."""
    import numpy as np
    from formulaic.utils.stateful_transforms import stateful_transform

    @stateful_transform
    def usr_center(data, _state=None):
        data = np.asarray(data, dtype=float)
        if "m" not in _state:
            _state["m"] = float(np.nanmean(data))
        return data - _state["m"]

    import types

    from formulaic.transforms import basis_spline, center, poly, scale

    from formulaic.transforms.cubic_spline import cubic_spline

    ft = types.SimpleNamespace(center=center, scale=scale, poly=poly, bs=basis_spline, cubic_spline=cubic_spline)
    return {"usr_center": usr_center, "usr_sq": (lambda x: x * x), "usr_offset": 1.5, "ft": ft}


CONTRASTS = [
    "", "", ", contr.treatment", ", contr.sum", ", contr.helmert", ", contr.diff", ", contr.poly", ", contr.SAS",
    ", contr.treatment(base={base})", ", Treatment(reference={base})", ", contr.helmert(scaled=True)", ", contr.diff(backward=False)",
]


def categorical_atoms(rng: random.Random, v: str, levels: list[str], *, rich: bool = True, force_custom: bool = False) -> dict:
    n = q(v)
    kind = core.weighted(rng, [("lookup", 6), ("C", 6), ("hashed", 2), ("Q", 1), ("I", 1), ("Clevels", 2)] if rich else [("lookup", 3), ("C", 2)])
    if force_custom:
        kind = "C"
    a: dict[str, Any] = {"vars": [v], "kind": "cat", "cls": "C", "stateful": True, "bounded": False, "mean_based": False}
    if kind == "lookup":
        a.update(expr=n, cls="lookup")
    elif kind == "C":
        c = rng.choice(CONTRASTS).format(base=repr(levels[rng.randrange(len(levels))]))
        if (force_custom or rng.random() < 0.25) and len(levels) >= 2:
            L = len(levels)
            rows = [[1 if j == i else 0 for j in range(L - 1)] for i in range(L - 1)] + [[-1] * (L - 1)]
            if rng.random() < 0.5:
                c = f", contr.custom({rows!r})"
            else:
                c = ", {" + ", ".join(f"'c{j}': {[r[j] for r in rows]!r}" for j in range(L - 1)) + "}"
        a.update(expr=f"C({n}{c})")
    elif kind == "Clevels":
        lv = levels[:]
        if rng.random() < 0.5:
            rng.shuffle(lv)
        a.update(expr=f"C({n}, levels={lv!r})", explicit_levels=lv)
    elif kind == "hashed":
        a.update(expr=f"hashed({n}, levels={rng.choice([3, 5, 8])})", cls="hashed")
    elif kind == "Q":
        a.update(expr=f"Q('{v}')", cls="ident")
    elif kind == "I":
        a.update(expr=f"I({n})", cls="ident")
    return a


def gen_formula(rng: random.Random, u: dict, *, rich: bool = True, structured_p: float = 0.3, max_terms: int = 5,
                force_ticked: bool = False) -> dict:
    """A formula recipe: {'spec': <str|list|dict|tuple-as-list>, 'form': .., 'atoms': [...], 'parts': [...]}"""
    cols = u["cols"]
    num = [c for c in cols if cols[c]["kind"] in ("float", "int")]
    cat = [c for c in cols if cols[c]["kind"] in ("text_object", "text_default", "category")]
    atoms: list[dict] = []

    def atom() -> dict:
        if "F" in cols and rng.random() < 0.2:
            e = rng.choice(["C(F)", "C(F, contr.sum)", "C(F, levels=[False, True])"])
            a = {"vars": ["F"], "kind": "cat", "cls": "C", "stateful": True, "bounded": False, "mean_based": False, "expr": e}
            atoms.append(a)
            return a
        if cat and rng.random() < 0.4:
            v = rng.choice(cat)
            a = categorical_atoms(rng, v, cols[v]["levels"], rich=rich)
        else:
            pool = num
            if force_ticked and "a b" in cols and rng.random() < 0.6:
                pool = [c for c in TICKED if c in cols]
            v = rng.choice(pool)
            if cols[v]["kind"] == "int" and rng.random() < 0.4:
                a = {"vars": [v], "kind": "cat", "cls": "C", "stateful": True, "bounded": False, "mean_based": False, "expr": f"C({q(v)})"}
            else:
                a = numeric_atoms(rng, v, rich=rich)
        atoms.append(a)
        return a

    parts_done = [0]

    def atom_or_shared() -> str:
        # later parts of a structured formula often reuse a factor of an earlier part (it is then evaluated / encoded once)
        if parts_done[0] > 0 and atoms and rng.random() < 0.4:
            a_ = rng.choice(atoms[: max(1, len(atoms))])
            m_ = re.match(r"^(center|scale|standardize)\((`[^`]+`|\w+)\)$", a_["expr"])
            if m_ and rng.random() < 0.5:
                # the same stateful CALL, nested in another factor of a later part (state is keyed by the call, not the factor)
                b_ = dict(a_, expr=f"I({a_['expr']} ** 2)", cls="num_py")
                atoms.append(b_)
                return b_["expr"]
            return a_["expr"]
        return atom()["expr"]

    def part(nmax: int) -> str:
        terms = []
        for _ in range(rng.randint(1, nmax)):
            deg = core.weighted(rng, [(1, 6), (2, 3), (3, 1)])
            fs = list(dict.fromkeys(atom_or_shared() for _ in range(deg)))
            deg = len(fs)
            op = ":" if rng.random() < 0.7 or deg == 1 else "*"
            t = op.join(fs)
            if op == ":" and rng.random() < 0.12:
                t = rng.choice(["2.5", "3", "0.5"]) + ":" + t  # numerically scaled term
            terms.append(t)
        s = " + ".join(terms)
        r = rng.random()
        if r < 0.12:
            s += " - 1"
        elif r < 0.18:
            s = "0 + " + s
        parts_done[0] += 1
        return s

    def paired() -> str:
        """The same stateful transform over two names that sanitise to one alias (their state must not be shared)."""
        tr = rng.choice(["center({})", "scale({})", "poly({}, degree=2)", "bs({}, df=4, extrapolation='clip')"])
        out = []
        for v in ("a b", "a|b"):
            e = tr.format(q(v))
            atoms.append({"vars": [v], "kind": "num", "cls": "num_py", "stateful": True, "bounded": False, "mean_based": True, "expr": e})
            out.append(e)
        return " + ".join(out)

    form = core.weighted(rng, [("simple", 1 - structured_p), ("lhs", structured_p * 0.5), ("multi", structured_p * 0.2),
                               ("dict", structured_p * 0.15), ("tuple", structured_p * 0.15)])
    if form == "simple":
        spec: Any = part(max_terms)
        if force_ticked and "a|b" in cols and rng.random() < 0.6:
            spec = spec + " + " + paired()
    elif form == "lhs":
        lhs = atom()["expr"]
        spec = f"{lhs} ~ {part(max_terms)}"
    elif form == "multi":
        if cat and rng.random() < 0.45:
            # one contrast-coded factor in two parts, once under an intercept (reduced rank) and once without (full rank)
            v_ = rng.choice(cat)
            ca = categorical_atoms(rng, v_, cols[v_]["levels"], rich=True, force_custom=rng.random() < 0.5)
            atoms.append(ca)
            lhs_ = atom()["expr"]
            spec = f"{lhs_} ~ {ca['expr']} + {part(2)} | {ca['expr']} - 1"
        else:
            spec = f"{atom()['expr']} ~ {part(3)} | {part(2)}"
    elif form == "dict":
        spec = {"m1": part(3), "m2": part(2)}
    else:
        spec = {"__tuple__": [part(3), part(2)]}
    return {"spec": spec, "form": form, "atoms": atoms}


def spec_to_python(spec: Any) -> Any:
    if isinstance(spec, dict) and "__termset__" in spec:
        from formulaic import Formula

        return set(Formula(spec["__termset__"]))  # a builtin set of Term objects
    if isinstance(spec, dict) and "__set__" in spec:
        return set(spec["__set__"])  # a builtin set is part of the public FormulaSpec alias
    if isinstance(spec, dict) and "__tuple__" in spec:
        return tuple(spec_to_python(s) for s in spec["__tuple__"])
    if isinstance(spec, dict):
        return {k: spec_to_python(v) for k, v in spec.items()}
    if isinstance(spec, list):
        return [spec_to_python(s) for s in spec]
    return spec


def variables_of(frecipe: dict) -> list[str]:
    out: dict[str, None] = {}
    for a in frecipe["atoms"]:
        for v in a["vars"]:
            out.setdefault(v)
    return list(out)


def training_domain(u: dict, frecipe: dict, train_ids: list[int]) -> list[int]:
    """Row ids of the universe inside the training domain of the formula (see DESIGN 3)."""
    import numpy as np
    import pandas as pd

    df = universe_frame(u)
    t = df.iloc[train_ids]
    ok = np.ones(len(df), dtype=bool)
    seen: set[str] = set()
    for a in frecipe["atoms"]:
        for v in a["vars"]:
            key = f"{v}|{a['kind']}|{a.get('bounded')}"
            if key in seen:
                continue
            seen.add(key)
            col = df[v]
            if a["kind"] == "cat":
                lv = set(t[v].dropna().tolist())
                if a.get("explicit_levels") is not None:
                    lv = lv & set(a["explicit_levels"]) if False else lv
                ok &= (col.isna() | col.isin(list(lv))).to_numpy()
            elif a.get("bounded"):
                lo, hi = t[v].min(), t[v].max()
                ok &= (col.isna() | ((col >= lo) & (col <= hi))).to_numpy()
    return [int(i) for i in np.flatnonzero(ok)]

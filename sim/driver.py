"""Batch driver, worker protocol, replay, evidence.

The driver never imports formulaic.  It launches one *worker subprocess per
chunk* of run indices (so each chunk gets its own PYTHONHASHSEED), collects
per-chunk JSON results, confirms every reported violation by replaying its
minimised replay file in a fresh interpreter, matches confirmed violations
against /verif/known_findings.json and writes /verif/evidence/<id>.json.

Exit codes: 0 = property held on everything explored; 1 = at least one
confirmed violation not listed as a known finding (a line
``VIOLATION property=<id> replay=<path>`` is printed for each); 2 = harness
error (worker crash, timeout, a violation that did not replay).  A wall-clock
kill can therefore never produce exit 0.
"""

from __future__ import annotations

import argparse
import importlib
import json
import os
import subprocess
import sys
import time
import traceback
from pathlib import Path
from typing import Any, Optional

from . import core

VERIF = Path(__file__).resolve().parent.parent
CHECK_MODULES = {
    "C04": "checks.c04_spec_replay",
    "C09": "checks.c09_incompatible",
    "C18": "checks.c18_purity",
    "C19": "checks.c19_containers",
}
SINGLE_THREAD_ENV = {
    "OMP_NUM_THREADS": "1",
    "OPENBLAS_NUM_THREADS": "1",
    "MKL_NUM_THREADS": "1",
    "NUMEXPR_NUM_THREADS": "1",
    "VECLIB_MAXIMUM_THREADS": "1",
}


def load_check(prop: str) -> Any:
    if prop not in CHECK_MODULES:
        raise SystemExit(f"unknown property {prop}; claimed: {sorted(CHECK_MODULES)}")
    return importlib.import_module(CHECK_MODULES[prop])


def src_root() -> str:
    return os.path.realpath(os.environ.get("FORMULAIC_SRC", "/repo"))


def import_formulaic_checked() -> Any:
    """Import formulaic from the source root under test and prove it."""
    root = src_root()
    if sys.path[0] != root:
        sys.path.insert(0, root)
    import formulaic

    where = os.path.realpath(formulaic.__file__)
    if not where.startswith(root + os.sep):
        raise RuntimeError(f"formulaic imported from {where}, expected under {root}")
    return formulaic


class WorkerEnv:
    """What a check's ``execute`` may rely on inside a worker process."""

    def __init__(self, prop: str, tier: str, chunk_seed: int):
        self.prop = prop
        self.tier = tier
        self.chunk_seed = chunk_seed
        self.hashseed = os.environ.get("PYTHONHASHSEED", "random")
        self.src_root = src_root()
        self.resources: dict[str, Any] = {}

    def close(self) -> None:
        for r in list(self.resources.values()):
            try:
                r.close()
            except Exception:
                pass
        self.resources.clear()


# ----------------------------------------------------------------------------
# argument parsing
# ----------------------------------------------------------------------------


def parse(argv: list[str]) -> argparse.Namespace:
    p = argparse.ArgumentParser(prog="check")
    p.add_argument("property")
    p.add_argument("--tier", choices=["quick", "thorough"], default=None)
    p.add_argument("--seed", type=int, default=None, help="overrides VERIF_SEED")
    p.add_argument("--runs", type=int, default=None)
    p.add_argument("--budget", type=float, default=None, help="soft wall budget (s)")
    p.add_argument("--workers", type=int, default=None)
    p.add_argument("--replay", default=None)
    p.add_argument("--prefix", default=None, help="internal: 'none', 'all' or comma-separated run indices executed in-process before the replayed scenario")
    p.add_argument("--run-seed", type=int, default=None, help="execute one run seed verbosely")
    p.add_argument("--index", type=int, default=None, help="execute one run index verbosely")
    p.add_argument("--logs", action="store_true", help="record per-run event-log digests")
    p.add_argument("--salt", type=int, default=0, help="perturbs the per-chunk worker hash seeds (determinism self-test)")
    p.add_argument("--chunk", type=int, default=None, help="override chunk size")
    p.add_argument("--no-evidence", action="store_true")
    p.add_argument("--no-shrink", action="store_true")
    p.add_argument("--quiet", action="store_true")
    # internal
    p.add_argument("--worker", action="store_true")
    p.add_argument("--range", default=None)
    p.add_argument("--out", default=None)
    p.add_argument("--chunk-seed", type=int, default=0)
    p.add_argument("--deadline", type=float, default=None)
    a = p.parse_args(argv)
    if a.tier is None:
        a.tier = os.environ.get("VERIF_TIER", "quick")
        if a.tier not in ("quick", "thorough"):
            a.tier = "quick"
    if a.seed is None:
        try:
            a.seed = int(os.environ.get("VERIF_SEED", "0"))
        except ValueError:
            a.seed = 0
    a.property = a.property.upper()
    return a


# ----------------------------------------------------------------------------
# worker
# ----------------------------------------------------------------------------


def shrink_generic(mod: Any, scenario: dict, violation: dict, env: WorkerEnv, seconds: float) -> dict:
    """ddmin over scenario['ops'] keeping the same clause, then per-check simplification."""
    t_end = time.monotonic() + seconds

    def budget() -> bool:
        return time.monotonic() < t_end

    clause = violation["clause"]

    def fails(sc: Optional[dict]) -> bool:
        if sc is None:
            return False
        try:
            res = mod.execute(sc, env)
        except Exception:
            return False
        v = res.get("violation")
        return bool(v) and v["clause"] == clause

    best = scenario
    ops = scenario.get("ops", [])
    if hasattr(mod, "reduce") and len(ops) > 1:

        def test(keep: list[int]) -> bool:
            return fails(mod.reduce(scenario, keep))

        keep = core.ddmin(len(ops), test, budget)
        cand = mod.reduce(scenario, keep)
        if cand is not None and fails(cand):
            best = cand
    if hasattr(mod, "simplify"):
        progress = True
        while progress and budget():
            progress = False
            for cand in mod.simplify(best):
                if not budget():
                    break
                if fails(cand):
                    best = cand
                    progress = True
                    break
    return best


def write_replay(prop: str, scenario: dict, violation: dict, meta: dict, unshrunk: Optional[dict] = None, unshrunk_violation: Optional[dict] = None) -> str:
    d = VERIF / "replays"
    d.mkdir(exist_ok=True)
    name = f"{prop}-{meta.get('run_seed', 0):016x}.json"
    path = d / name
    with open(path, "w") as f:
        json.dump(
            {"property": prop, "violation": violation, "scenario": scenario, "meta": meta,
             **({"scenario_unshrunk": unshrunk, "violation_unshrunk": unshrunk_violation} if unshrunk is not None else {})},
            f,
            indent=1,
            default=core._jdefault,
        )
    return str(path)


def worker_main(a: argparse.Namespace) -> int:
    import faulthandler

    faulthandler.enable()
    t0 = time.monotonic()
    mod = load_check(a.property)
    tier = mod.TIERS[a.tier]
    lo, hi = (int(x) for x in a.range.split(":"))
    env = WorkerEnv(a.property, a.tier, a.chunk_seed)
    out: dict[str, Any] = {
        "range": [lo, hi],
        "hashseed": env.hashseed,
        "runs": 0,
        "ops": 0,
        "faults": {},
        "probes": {},
        "signatures": [],
        "nontrivial": [],
        "samples": [],
        "violations": [],
        "more_violating_seeds": [],
        "errors": [],
        "logs": {},
        "extra": {},
    }
    sigs: set[str] = set()
    nontrivial: set[str] = set()
    pending_shrink: list = []
    try:
        if hasattr(mod, "worker_setup"):
            mod.worker_setup(env)
        for index in range(lo, hi):
            if a.deadline is not None and time.time() > a.deadline:
                break
            rs = core.run_seed(a.seed, a.property, index)
            faulthandler.dump_traceback_later(tier.get("run_timeout_s", 60), exit=True)
            try:
                scenario = mod.generate(rs, a.tier)
                res = mod.execute(scenario, env)
            finally:
                faulthandler.cancel_dump_traceback_later()
            out["runs"] += 1
            st = res.get("stats", {})
            out["ops"] += st.get("ops", 0)
            for k, v in st.get("faults", {}).items():
                out["faults"][k] = out["faults"].get(k, 0) + v
            for k, v in st.get("probes", {}).items():
                out["probes"][k] = out["probes"].get(k, 0) + v
            for k, v in st.get("extra", {}).items():
                out["extra"][k] = out["extra"].get(k, 0) + v
            for s in st.get("signatures", []):
                sigs.add(s)
            for s in st.get("nontrivial", []):
                nontrivial.add(s)
            if a.logs:
                out["logs"][str(index)] = core.digest(res.get("log", []))
            if len(out["samples"]) < 2 and st.get("sample") is not None and index % 7 == lo % 7:
                out["samples"].append({"run_index": index, "run_seed": rs, **st["sample"]})
            v = res.get("violation")
            if v:
                if len(pending_shrink) >= tier.get("max_violations_per_chunk", 2):
                    out["more_violating_seeds"].append({"index": index, "clause": v["clause"]})
                    continue
                # shrinking executes many scenario variants; doing it now would let them influence later runs of
                # this process (module-level state of the library), so it is deferred until every run is done
                pending_shrink.append((index, rs, scenario, v))
        for index, rs, scenario, v in pending_shrink:
            if True:
                orig_len = len(scenario.get("ops", []))
                small = scenario
                if not a.no_shrink:
                    faulthandler.dump_traceback_later(tier.get("shrink_s", 45) * 3 + 60, exit=True)
                    try:
                        shr = getattr(mod, "shrink", None)
                        if shr is not None:
                            small = shr(scenario, v, env, tier.get("shrink_s", 45))
                        else:
                            small = shrink_generic(mod, scenario, v, env, tier.get("shrink_s", 45))
                    finally:
                        faulthandler.cancel_dump_traceback_later()
                    res2 = mod.execute(small, env)
                    v2 = res2.get("violation")
                    if not v2 or v2["clause"] != v["clause"]:
                        small, v2 = scenario, v
                else:
                    v2 = v
                meta = {
                    "run_seed": rs,
                    "run_index": index,
                    "process_prefix_indices": list(range(lo, index)),
                    "verif_seed": a.seed,
                    "tier": a.tier,
                    "hashseed": env.hashseed,
                    "orig_ops": orig_len,
                    "min_ops": len(small.get("ops", [])),
                    "src_root": env.src_root,
                }
                if hasattr(mod, "replay_meta"):
                    meta.update(mod.replay_meta(env))
                path = write_replay(a.property, small, v2, meta, unshrunk=scenario if small is not scenario else None, unshrunk_violation=v)
                feats = mod.features(small, v2) if hasattr(mod, "features") else {}
                out["violations"].append(
                    {"index": index, "run_seed": rs, "clause": v2["clause"], "step": v2.get("step"),
                     "detail": v2.get("detail"), "replay": path, "features": feats,
                     "orig_ops": orig_len, "min_ops": meta["min_ops"]}
                )
    except BaseException as e:  # harness error, never a VIOLATION
        out["errors"].append("".join(traceback.format_exception(type(e), e, e.__traceback__))[-4000:])
    finally:
        try:
            if hasattr(mod, "worker_teardown"):
                mod.worker_teardown(env)
        finally:
            env.close()
    out["signatures"] = sorted(sigs)
    out["nontrivial"] = sorted(nontrivial)
    out["wall_s"] = time.monotonic() - t0
    with open(a.out, "w") as f:
        json.dump(out, f, default=core._jdefault)
    return 0


# ----------------------------------------------------------------------------
# replay / single run
# ----------------------------------------------------------------------------


def replay_main(a: argparse.Namespace) -> int:
    """Replay a replay file in a fresh interpreter.

    A violation may depend on state that earlier *runs of the same worker process* left behind in the library
    (module-level caches and the like) - that is itself history dependence of the library.  The replay file
    therefore records which runs preceded the failing one in its process.  Replay first executes the recorded
    scenario alone; only if that shows nothing, it re-executes in a fresh interpreter with the recorded
    predecessor runs first, minimises that list (ddmin, each trial a fresh interpreter) and stores it in the file.
    """
    data = json.load(open(a.replay))
    prop = data["property"]
    meta = data.get("meta", {})
    want_hs = str(meta.get("hashseed", "0"))
    if os.environ.get("PYTHONHASHSEED") != want_hs and want_hs != "random":
        envp = dict(os.environ, PYTHONHASHSEED=want_hs, **SINGLE_THREAD_ENV)
        cmd = [sys.executable, str(VERIF / "check"), prop, "--replay", a.replay]
        if a.prefix is not None:
            cmd += ["--prefix", a.prefix]
        return subprocess.call(cmd, env=envp)

    if a.prefix is None:
        # orchestrator
        def attempt(prefix: str) -> subprocess.CompletedProcess:
            return subprocess.run([sys.executable, str(VERIF / "check"), prop, "--replay", a.replay, "--prefix", prefix],
                                  capture_output=True, text=True, env=dict(os.environ), timeout=900)

        recorded = meta.get("needed_prefix_indices")
        first = attempt("none" if not recorded else ",".join(map(str, recorded)))
        if first.returncode == 1 or not meta.get("process_prefix_indices") or recorded:
            sys.stdout.write(first.stdout)
            sys.stderr.write(first.stderr[-2000:])
            return first.returncode
        allp = list(meta["process_prefix_indices"])
        full = attempt(",".join(map(str, allp)))
        if full.returncode != 1 and "scenario_unshrunk" in data:
            # the minimised history was minimised inside a process whose library state had been touched by other
            # scenarios; fall back to the history exactly as the run executed it
            data["scenario"], data["violation"] = data.pop("scenario_unshrunk"), data.pop("violation_unshrunk")
            data["meta"]["min_ops"] = data["meta"].get("orig_ops")
            data["meta"]["shrink_discarded"] = True
            with open(a.replay, "w") as f:
                json.dump(data, f, indent=1, default=core._jdefault)
            first = attempt("none")
            if first.returncode == 1:
                sys.stdout.write(first.stdout)
                return 1
            full = attempt(",".join(map(str, allp)))
        if full.returncode != 1:
            sys.stdout.write(first.stdout)
            return first.returncode
        t_end = time.time() + 75
        keep_idx = core.ddmin(len(allp), lambda keep: attempt(",".join(str(allp[i]) for i in keep)).returncode == 1, lambda: time.time() < t_end)
        need = [allp[i] for i in keep_idx]
        data["meta"]["needed_prefix_indices"] = need
        data["meta"]["needs_process_history"] = True
        with open(a.replay, "w") as f:
            json.dump(data, f, indent=1, default=core._jdefault)
        final = attempt(",".join(map(str, need)))
        sys.stdout.write(final.stdout)
        print(f"NOTE the violation needs {len(need)} earlier run(s) of the same process (indices {need}); recorded in the replay file")
        return final.returncode

    mod = load_check(prop)
    env = WorkerEnv(prop, meta.get("tier", "quick"), 0)
    try:
        if hasattr(mod, "worker_setup"):
            mod.worker_setup(env, replay_meta=meta) if _accepts_meta(mod.worker_setup) else mod.worker_setup(env)
        if a.prefix not in ("none", ""):
            idxs = meta.get("process_prefix_indices", []) if a.prefix == "all" else [int(x) for x in a.prefix.split(",") if x]
            for idx in idxs:
                rs = core.run_seed(int(meta.get("verif_seed", 0)), prop, idx)
                try:
                    mod.execute(mod.generate(rs, meta.get("tier", "quick")), env)
                except Exception:  # noqa: BLE001
                    pass
        res = mod.execute(data["scenario"], env)
    finally:
        if hasattr(mod, "worker_teardown"):
            mod.worker_teardown(env)
        env.close()
    v = res.get("violation")
    want = data.get("violation") or {}
    if v:
        same = v["clause"] == want.get("clause") and v.get("step") == want.get("step")
        print(f"REPLAY clause={v['clause']} step={v.get('step')} same_as_recorded={same} prefix={a.prefix}")
        print("detail:", json.dumps(v.get("detail"), default=core._jdefault)[:3000])
        print(f"VIOLATION property={prop} replay={a.replay}")
        return 1
    print("REPLAY no violation (the recorded history now satisfies the property)")
    return 0


def _accepts_meta(fn: Any) -> bool:
    import inspect

    return "replay_meta" in inspect.signature(fn).parameters


def single_run_main(a: argparse.Namespace) -> int:
    mod = load_check(a.property)
    rs = a.run_seed if a.run_seed is not None else core.run_seed(a.seed, a.property, a.index)
    env = WorkerEnv(a.property, a.tier, 0)
    try:
        if hasattr(mod, "worker_setup"):
            mod.worker_setup(env)
        sc = mod.generate(rs, a.tier)
        res = mod.execute(sc, env)
    finally:
        if hasattr(mod, "worker_teardown"):
            mod.worker_teardown(env)
        env.close()
    print(json.dumps({"run_seed": rs, "scenario": sc}, indent=1, default=core._jdefault)[:20000])
    print(json.dumps({"violation": res.get("violation"), "stats": res.get("stats"), "log_digest": core.digest(res.get("log", []))},
                     indent=1, default=core._jdefault)[:20000])
    return 1 if res.get("violation") else 0


# ----------------------------------------------------------------------------
# known findings
# ----------------------------------------------------------------------------


def load_known() -> list[dict]:
    p = VERIF / "known_findings.json"
    if not p.exists():
        return []
    data = json.load(open(p))
    return [e for e in data.get("findings", []) if e.get("status") == "known"]


def match_known(known: list[dict], prop: str, viol: dict) -> Optional[dict]:
    """An entry matches when property and clause agree and every key of its
    ``scenario_predicate`` equals the feature computed from the minimised replay."""
    feats = viol.get("features", {})
    for e in known:
        if e.get("property") != prop:
            continue
        if e.get("clause") not in (None, viol["clause"]):
            continue
        pred = e.get("scenario_predicate", {})
        if all(feats.get(k) == v for k, v in pred.items()):
            return e
    return None


# ----------------------------------------------------------------------------
# driver
# ----------------------------------------------------------------------------


def driver_main(a: argparse.Namespace) -> int:
    t0 = time.time()
    mod = load_check(a.property)
    tier = dict(mod.TIERS[a.tier])
    total = a.runs if a.runs is not None else tier["runs"]
    chunk = max(1, min(a.chunk or tier["chunk"], total))
    budget = a.budget if a.budget is not None else tier["budget_s"]
    workers = a.workers or int(os.environ.get("VERIF_WORKERS", "0")) or min(16, os.cpu_count() or 1)
    soft_deadline = t0 + budget
    hard_chunk_timeout = tier.get("chunk_timeout_s", budget * 2 + 120)
    tmp = Path(os.environ.get("TMPDIR", "/tmp")) / f"verif-{a.property}-{os.getpid()}"
    tmp.mkdir(parents=True, exist_ok=True)

    pending = list(core.chunks(total, chunk))
    pending.reverse()
    running: list[dict] = []
    results: list[dict] = []
    errors: list[str] = []
    stop_launching = False
    launched = 0

    def launch(lo: int, hi: int) -> None:
        nonlocal launched
        cseed = core.h64("chunk", a.seed, a.property, lo, a.salt)
        hs = str(cseed % 4294967295)
        out = tmp / f"chunk-{lo}.json"
        envp = dict(os.environ, PYTHONHASHSEED=hs, **SINGLE_THREAD_ENV)
        cmd = [sys.executable, str(VERIF / "check"), a.property, "--worker", "--tier", a.tier,
               "--seed", str(a.seed), "--range", f"{lo}:{hi}", "--out", str(out),
               "--chunk-seed", str(cseed), "--deadline", str(soft_deadline)]
        if a.logs:
            cmd.append("--logs")
        if a.no_shrink:
            cmd.append("--no-shrink")
        log = open(tmp / f"chunk-{lo}.log", "w")
        p = subprocess.Popen(cmd, stdout=log, stderr=subprocess.STDOUT, env=envp, cwd=str(VERIF))
        running.append({"p": p, "lo": lo, "hi": hi, "out": out, "log": log, "t": time.time()})
        launched += 1

    try:
        while pending or running:
            while pending and len(running) < workers and not stop_launching and time.time() < soft_deadline:
                lo, hi = pending.pop()
                launch(lo, hi)
            if not running:
                break
            time.sleep(0.05)
            for r in list(running):
                rc = r["p"].poll()
                if rc is None:
                    if time.time() - r["t"] > hard_chunk_timeout:
                        r["p"].kill()
                        r["p"].wait()
                        errors.append(f"chunk {r['lo']}:{r['hi']} exceeded {hard_chunk_timeout}s; killed")
                        running.remove(r)
                        r["log"].close()
                    continue
                running.remove(r)
                r["log"].close()
                if rc != 0 or not r["out"].exists():
                    tail = open(tmp / f"chunk-{r['lo']}.log").read()[-3000:]
                    errors.append(f"chunk {r['lo']}:{r['hi']} exited {rc}\n{tail}")
                    continue
                res = json.load(open(r["out"]))
                results.append(res)
                errors.extend(res.get("errors", []))
                if res.get("violations") and a.tier == "quick":
                    stop_launching = True  # fail fast on the per-change tier
            if errors:
                stop_launching = True
    finally:
        for r in running:
            try:
                r["p"].kill()
            except Exception:
                pass

    # ---- aggregate
    agg: dict[str, Any] = {"runs": 0, "ops": 0, "faults": {}, "probes": {}, "extra": {}}
    sigs: set[str] = set()
    nontriv: set[str] = set()
    samples: list[Any] = []
    viols: list[dict] = []
    more: list[dict] = []
    hashseeds: set[str] = set()
    logs: dict[str, str] = {}
    for res in sorted(results, key=lambda r: r["range"][0]):
        agg["runs"] += res["runs"]
        agg["ops"] += res["ops"]
        for key in ("faults", "probes", "extra"):
            for k, v in res[key].items():
                agg[key][k] = agg[key].get(k, 0) + v
        sigs.update(res["signatures"])
        nontriv.update(res["nontrivial"])
        if len(samples) < 4:
            samples.extend(res["samples"][: 4 - len(samples)])
        viols.extend(res["violations"])
        more.extend(res["more_violating_seeds"])
        hashseeds.add(str(res["hashseed"]))
        logs.update(res.get("logs", {}))

    # ---- confirm violations by replay in a fresh interpreter
    known = load_known()
    confirmed: list[dict] = []
    known_hits: list[tuple[dict, dict]] = []
    seen_clauses: dict[tuple, int] = {}
    to_confirm = []
    for v in viols:
        k0 = match_known(known, a.property, v)
        key = (v["clause"], k0.get("id") if k0 else None)  # a listed finding never uses up the slots of an unlisted violation
        seen_clauses[key] = seen_clauses.get(key, 0) + 1
        if seen_clauses[key] <= 2 and len(to_confirm) < tier.get("max_confirm", 6) + (2 if k0 else 0):
            to_confirm.append(v)
    for v in to_confirm:
        envp = dict(os.environ, **SINGLE_THREAD_ENV)
        envp.pop("PYTHONHASHSEED", None)
        try:
            cp = subprocess.run([sys.executable, str(VERIF / "check"), a.property, "--replay", v["replay"]],
                                capture_output=True, text=True, env=envp, cwd=str(VERIF), timeout=600)
        except subprocess.TimeoutExpired:
            errors.append(f"replay of {v['replay']} timed out")
            continue
        ok = cp.returncode == 1 and f"REPLAY clause={v['clause']} " in cp.stdout
        if not ok:
            errors.append(f"violation did not replay (clause {v['clause']}): {v['replay']}\n{cp.stdout[-1500:]}\n{cp.stderr[-1500:]}")
            continue
        k = match_known(known, a.property, v)
        if k is not None:
            known_hits.append((k, v))
        else:
            confirmed.append(v)

    wall = time.time() - t0
    if a.logs:
        batch = core.digest(sorted(logs.items(), key=lambda kv: int(kv[0])))
        print(f"BATCH-DIGEST runs={len(logs)} digest={batch}")
        if a.out:
            json.dump(logs, open(a.out, "w"))

    # ---- evidence
    if not a.no_evidence and agg["runs"] > 0:
        ev = {
            "property_id": a.property,
            "tier": a.tier,
            "seed": a.seed,
            "level": "exploration",
            "wall_s": round(wall, 2),
            "violations": len(confirmed),
            "coverage": {
                "evaluations": agg["runs"],
                "distinct_nontrivial": len(nontriv),
                "rule": mod.RULE,
                "samples": samples,
                "simulated_runs": agg["runs"],
                "operations_executed": agg["ops"],
                "runs_per_hour": int(agg["runs"] / max(wall, 1e-6) * 3600),
                "seeds_per_hour": int(agg["runs"] / max(wall, 1e-6) * 3600),
                "planned_runs": total,
                "simulated_time": "none: the system under test has no clock; logical steps = operations_executed",
                "fault_kinds_fired": dict(sorted(agg["faults"].items())),
                "probes": dict(sorted(agg["probes"].items())),
                "counters": dict(sorted(agg["extra"].items())),
                "distinct_interleaving_signatures": len(sigs),
                "harness_hash_seeds_used": len(hashseeds),
                "worker_processes": launched,
                "components": mod.COMPONENTS,
                "known_findings_hit": [k.get("id") for k, _ in known_hits],
                "unminimised_violating_runs": len(more),
                "exhaustive": False,
            },
            "assumptions": mod.ASSUMPTIONS,
        }
        zero = sorted(k for k, v in agg["probes"].items() if v == 0)
        if zero:
            ev["coverage"]["probes_stuck_at_zero"] = zero
        (VERIF / "evidence").mkdir(exist_ok=True)
        with open(VERIF / "evidence" / f"{a.property}.json", "w") as f:
            json.dump(ev, f, indent=1, sort_keys=True, default=core._jdefault)

    # ---- report
    if not a.quiet:
        print(f"{a.property} tier={a.tier} seed={a.seed} runs={agg['runs']}/{total} ops={agg['ops']} "
              f"signatures={len(sigs)} nontrivial={len(nontriv)} wall={wall:.1f}s "
              f"faults={dict(sorted(agg['faults'].items()))}")
        zero = sorted(k for k, v in agg["probes"].items() if v == 0)
        if zero and a.tier == "thorough":
            print(f"WARNING probes stuck at zero: {zero}")
    for k, v in known_hits:
        print(f"KNOWN-FINDING: property={a.property} {k.get('id')}: {k.get('what_fails')} (replay={v['replay']})")
    for v in confirmed:
        print(f"  clause={v['clause']} step={v['step']} ops {v['orig_ops']}->{v['min_ops']} detail={json.dumps(v['detail'], default=core._jdefault)[:600]}")
        print(f"VIOLATION property={a.property} replay={v['replay']}")
    try:
        import shutil

        shutil.rmtree(tmp, ignore_errors=True)
    except Exception:
        pass
    if errors:
        for e in errors[:5]:
            print("HARNESS-ERROR:", e, file=sys.stderr)
        if not confirmed:
            return 2
    if confirmed:
        return 1
    if agg["runs"] == 0:
        print("HARNESS-ERROR: no runs executed", file=sys.stderr)
        return 2
    return 0


def main(argv: Optional[list[str]] = None) -> int:
    a = parse(sys.argv[1:] if argv is None else argv)
    if a.worker:
        return worker_main(a)
    if a.replay:
        return replay_main(a)
    if a.run_seed is not None or a.index is not None:
        return single_run_main(a)
    return driver_main(a)

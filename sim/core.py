"""Seeds, sub-streams, digests, ddmin.  No dependency on formulaic.

One integer decides a run: every random choice is drawn from a
``random.Random`` seeded from ``sha256(run_seed, label)``; nothing here reads a
clock or iterates a hash-ordered container.
"""

from __future__ import annotations

import hashlib
import json
import random
from typing import Any, Callable, Iterable, Sequence


def h64(*parts: Any) -> int:
    """Stable 64-bit hash of the parts (independent of PYTHONHASHSEED)."""
    m = hashlib.sha256()
    for p in parts:
        m.update(repr(p).encode())
        m.update(b"\x00")
    return int.from_bytes(m.digest()[:8], "big")


def run_seed(verif_seed: int, prop: str, index: int) -> int:
    return h64("run", int(verif_seed), prop, int(index))


def stream(seed: int, label: str) -> random.Random:
    """Independent PRNG sub-stream of a run."""
    return random.Random(h64("stream", int(seed), label))


def jdump(obj: Any) -> str:
    return json.dumps(obj, sort_keys=True, separators=(",", ":"), default=_jdefault)


def _jdefault(o: Any) -> Any:
    if isinstance(o, (set, frozenset)):
        return sorted(o, key=repr)
    if isinstance(o, tuple):
        return list(o)
    if isinstance(o, bytes):
        return o.hex()
    try:
        import numpy

        if isinstance(o, numpy.integer):
            return int(o)
        if isinstance(o, numpy.floating):
            return float(o)
        if isinstance(o, numpy.ndarray):
            return o.tolist()
        if isinstance(o, numpy.bool_):
            return bool(o)
    except Exception:  # pragma: no cover
        pass
    return repr(o)


def digest(obj: Any) -> str:
    return hashlib.sha256(jdump(obj).encode()).hexdigest()[:16]


def weighted(rng: random.Random, table: Sequence[tuple[Any, float]]) -> Any:
    total = sum(w for _, w in table)
    x = rng.random() * total
    acc = 0.0
    for item, w in table:
        acc += w
        if x < acc:
            return item
    return table[-1][0]


def ddmin(n: int, test: Callable[[list[int]], bool], budget: Callable[[], bool]) -> list[int]:
    """Classic delta debugging over indices 0..n-1.

    ``test(keep)`` must return True when the sub-sequence ``keep`` still shows
    the *same* failure.  ``budget()`` returns False when time is up.  Returns a
    1-minimal (within budget) list of kept indices.
    """
    keep = list(range(n))
    gran = 2
    while len(keep) >= 2 and budget():
        chunk = max(1, len(keep) // gran)
        subsets = [keep[i : i + chunk] for i in range(0, len(keep), chunk)]
        reduced = False
        # try complements first (removing one chunk)
        for sub in subsets:
            if not budget():
                break
            cand = [i for i in keep if i not in set(sub)]
            if cand and test(cand):
                keep = cand
                gran = max(gran - 1, 2)
                reduced = True
                break
        if not reduced:
            if chunk == 1:
                break
            gran = min(len(keep), gran * 2)
    # final single-element sweep
    i = 0
    while i < len(keep) and budget() and len(keep) > 1:
        cand = keep[:i] + keep[i + 1 :]
        if test(cand):
            keep = cand
        else:
            i += 1
    return keep


def chunks(total: int, size: int) -> Iterable[tuple[int, int]]:
    for a in range(0, total, size):
        yield a, min(total, a + size)

#!/bin/bash
# No-alarm soak on the unchanged tree: quick tier under several VERIF_SEEDs, then the thorough tier.
cd "$(dirname "$0")/.."
rc=0
for s in ${SOAK_SEEDS:-1 2 3 4 5 6 7 8}; do
  for p in C04 C09 C18 C19; do
    VERIF_SEED=$s ./check $p --tier quick --no-evidence | cut -c1-220; e=${PIPESTATUS[0]}; echo "seed=$s $p exit=$e"; [ $e -ne 0 ] && rc=1
  done
done
if [ "${SOAK_THOROUGH:-1}" = "1" ]; then
  for p in C04 C09 C18 C19; do
    VERIF_SEED=${SOAK_THOROUGH_SEED:-11} ./check $p --tier thorough --no-evidence | cut -c1-220; e=${PIPESTATUS[0]}; echo "thorough $p exit=$e"; [ $e -ne 0 ] && rc=1
  done
fi
echo "SOAK rc=$rc"
exit $rc

#!/venv/bin/python
"""Sensitivity self-test: apply each mutant patch to a scratch worktree of /repo (outside /repo and
/verif, removed straight afterwards) and run the check(s) against it through FORMULAIC_SRC.

usage: sensitivity.py [--dir DIR] [--tier quick] [--baseline] [--all-checks] [--runs N] [name ...]
  DIR defaults to selftest/mutants; seeded sub-agent mutants live in seeded/.
Prints one line per (mutant, check): CAUGHT / MISSED / HARNESS-ERROR, the clause and the wall time.
"""
import json
import os
import shutil
import subprocess
import sys
import tempfile
import time

HERE = os.path.dirname(os.path.dirname(os.path.abspath(__file__)))
args = sys.argv[1:]


def opt(name, default=None, flag=False):
    if name in args:
        i = args.index(name)
        if flag:
            args.pop(i)
            return True
        v = args[i + 1]
        del args[i : i + 2]
        return v
    return default


d = os.path.abspath(opt("--dir", os.path.join(HERE, "selftest", "mutants")))
tier = opt("--tier", "quick")
baseline = opt("--baseline", flag=True)
allchecks = opt("--all-checks", flag=True)
runs = opt("--runs")
expect_silent = opt("--expect-silent", flag=True)  # benign refactorings: every check must stay silent (exit 0)
names = args or sorted(os.listdir(d))
results = []
for name in names:
    md = os.path.join(d, name)
    if not os.path.exists(os.path.join(md, "patch.diff")):
        continue
    meta = json.load(open(os.path.join(md, "meta.json")))
    if meta.get("status") == "neutralised":
        print(f"{name}: SKIPPED (no longer breaks the property on the current tree: {meta.get('neutralised_by', '')[:90]}...)")
        continue
    scratch = tempfile.mkdtemp(prefix="formulaic-mut-", dir=os.environ.get("TMPDIR", "/tmp"))
    os.rmdir(scratch)
    try:
        subprocess.run(["git", "-C", "/repo", "worktree", "add", "-q", "--detach", scratch, "HEAD"], check=True)
        ap = subprocess.run(["git", "-C", scratch, "apply", os.path.join(md, "patch.diff")], capture_output=True, text=True)
        if ap.returncode != 0:
            print(f"{name}: PATCH DOES NOT APPLY: {ap.stderr.strip()[:300]}")
            results.append((name, "-", "NOAPPLY"))
            continue
        env = dict(os.environ, FORMULAIC_SRC=scratch)
        if baseline:
            bp = subprocess.run([os.path.join(HERE, "selftest", "baseline.py")], env=env, capture_output=True, text=True)
            print(f"{name}: baseline {'OK' if bp.returncode == 0 else 'BROKEN'} {bp.stdout.strip().splitlines()[0] if bp.stdout.strip() else ''}")
        # the check expected to catch it: normally the property the author tagged, sometimes a neighbouring one
        props = ["C04", "C09", "C18", "C19"] if allchecks else [meta.get("caught_by", meta["property"])]
        for p in props:
            t0 = time.time()
            cmd = [os.path.join(HERE, "check"), p, "--tier", tier, "--no-evidence"]
            if runs:
                cmd += ["--runs", runs]
            cp = subprocess.run(cmd, env=env, capture_output=True, text=True, cwd=HERE)
            clauses = sorted({ln.split("clause=")[1].split(" ")[0] for ln in cp.stdout.splitlines() if ln.strip().startswith("clause=")})
            verdict = {0: "MISSED", 1: "CAUGHT"}.get(cp.returncode, "HARNESS-ERROR")
            print(f"{name}: {p} {verdict} clauses={clauses} wall={time.time() - t0:.0f}s")
            if verdict == "HARNESS-ERROR":
                print(cp.stderr[-1500:])
            results.append((name, p, verdict))
    finally:
        subprocess.run(["git", "-C", "/repo", "worktree", "remove", "--force", scratch], capture_output=True)
        shutil.rmtree(scratch, ignore_errors=True)
own = [r for r in results]
if expect_silent:
    noisy = [r for r in own if r[2] != "MISSED"]
    print(f"NO-ALARM-ON-BENIGN {len(own) - len(noisy)}/{len(own)} silent")
    sys.exit(0 if not noisy else 1)
missed = [r for r in own if r[2] != "CAUGHT"]
print(f"SENSITIVITY {len(own) - len(missed)}/{len(own)} caught")
sys.exit(0 if not missed else 1)

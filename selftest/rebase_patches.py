#!/venv/bin/python
"""After a new commit in /repo: check that every seeded / own mutant patch still applies to HEAD; re-base textually
broken ones with a 3-way apply when that succeeds without conflict (keeping the original as patch.orig.diff) and list
the ones that need re-basing by hand."""
import os
import shutil
import subprocess
import sys
import tempfile

HERE = os.path.dirname(os.path.dirname(os.path.abspath(__file__)))
scratch = tempfile.mkdtemp(prefix="formulaic-rebase-", dir=os.environ.get("TMPDIR", "/tmp"))
os.rmdir(scratch)
subprocess.run(["git", "-C", "/repo", "worktree", "add", "-q", "--detach", scratch, "HEAD"], check=True)
bad = []
try:
    for base in (os.path.join(HERE, "seeded"), os.path.join(HERE, "selftest", "mutants")):
        for name in sorted(os.listdir(base)):
            p = os.path.join(base, name, "patch.diff")
            if not os.path.exists(p):
                continue
            subprocess.run(["git", "-C", scratch, "checkout", "-q", "--", "."])
            subprocess.run(["git", "-C", scratch, "reset", "-q", "--hard"])
            if subprocess.run(["git", "-C", scratch, "apply", "--check", p], capture_output=True).returncode == 0:
                continue
            r = subprocess.run(["git", "-C", scratch, "apply", "-3", p], capture_output=True, text=True)
            unmerged = subprocess.run(["git", "-C", scratch, "diff", "--name-only", "--diff-filter=U"], capture_output=True, text=True).stdout.strip()
            d = subprocess.run(["git", "-C", scratch, "diff", "HEAD"], capture_output=True, text=True).stdout
            if r.returncode == 0 and not unmerged and d.strip() and "<<<<<<<" not in d:
                if not os.path.exists(os.path.join(base, name, "patch.orig.diff")):
                    shutil.copy(p, os.path.join(base, name, "patch.orig.diff"))
                open(p, "w").write(d)
                print("re-based (3-way)", name)
            else:
                print("NEEDS MANUAL RE-BASE", name)
                bad.append(name)
finally:
    subprocess.run(["git", "-C", "/repo", "worktree", "remove", "--force", scratch], capture_output=True)
    shutil.rmtree(scratch, ignore_errors=True)
sys.exit(1 if bad else 0)

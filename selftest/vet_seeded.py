#!/venv/bin/python
"""Vet a sub-agent mutant before keeping it: the patch applies to /repo HEAD, the pinned suite still passes,
the demo fails with the patch and passes without it.  usage: vet_seeded.py <agent worktree> <m1|m2|m3> <seeded id>
On success copies patch.diff, demo.py, meta.json to /verif/seeded/<id>/ (adding what was run to meta.json)."""
import json
import os
import shutil
import subprocess
import sys
import tempfile

HERE = os.path.dirname(os.path.dirname(os.path.abspath(__file__)))
wt, m, sid = sys.argv[1:4]
src = os.path.join(wt, "mutants", m)
scratch = tempfile.mkdtemp(prefix="formulaic-vet-", dir=os.environ.get("TMPDIR", "/tmp"))
os.rmdir(scratch)
ok = True
notes = {}
try:
    subprocess.run(["git", "-C", "/repo", "worktree", "add", "-q", "--detach", scratch, "HEAD"], check=True)
    env = dict(os.environ, PYTHONPATH=scratch, FORMULAIC_SRC=scratch)
    demo = os.path.join(src, "demo.py")
    r0 = subprocess.run(["/venv/bin/python", demo], env=env, capture_output=True, text=True, cwd=scratch, timeout=600)
    notes["demo_without"] = r0.returncode
    ap = subprocess.run(["git", "-C", scratch, "apply", os.path.join(src, "patch.diff")], capture_output=True, text=True)
    notes["applies"] = ap.returncode == 0
    if ap.returncode == 0:
        r1 = subprocess.run(["/venv/bin/python", demo], env=env, capture_output=True, text=True, cwd=scratch, timeout=600)
        notes["demo_with"] = r1.returncode
        notes["demo_with_tail"] = (r1.stdout + r1.stderr)[-400:]
        bp = subprocess.run([os.path.join(HERE, "selftest", "baseline.py")], env=env, capture_output=True, text=True)
        notes["baseline_ok"] = bp.returncode == 0
        notes["baseline"] = bp.stdout.strip().splitlines()[0] if bp.stdout.strip() else ""
    ok = notes.get("applies") and notes.get("demo_without") == 0 and notes.get("demo_with", 0) != 0 and notes.get("baseline_ok")
finally:
    subprocess.run(["git", "-C", "/repo", "worktree", "remove", "--force", scratch], capture_output=True)
    shutil.rmtree(scratch, ignore_errors=True)
print(sid, "VETTED" if ok else "REJECTED", json.dumps(notes)[:600])
if ok:
    dst = os.path.join(HERE, "seeded", sid)
    os.makedirs(dst, exist_ok=True)
    for f in ("patch.diff", "demo.py"):
        shutil.copy(os.path.join(src, f), os.path.join(dst, f))
    meta = json.load(open(os.path.join(src, "meta.json")))
    meta["origin"] = f"independent sub-agent ({os.path.basename(wt)}/{m}); given only the property text and a scratch worktree"
    meta["vetted"] = {"applies_to_repo_head": True, "pinned_suite_passes_with_patch": True, "demo_exit_without_patch": 0,
                      "demo_exit_with_patch": notes["demo_with"], "ran": "selftest/vet_seeded.py (scratch worktree under $TMPDIR, removed afterwards)"}
    json.dump(meta, open(os.path.join(dst, "meta.json"), "w"), indent=1)
sys.exit(0 if ok else 1)

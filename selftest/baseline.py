#!/venv/bin/python
"""Run the repository's pinned test suite (command from /root/.vp/BASELINE.json) and
verify that every test listed there as stable_pass still passes.  Exit 0 iff so."""
import json
import os
import subprocess
import sys
import tempfile
import xml.etree.ElementTree as ET

base = json.load(open("/root/.vp/BASELINE.json"))
repo = os.environ.get("FORMULAIC_SRC", "/repo")
with tempfile.TemporaryDirectory() as d:
    xml = os.path.join(d, "junit.xml")
    cmd = base["cmd"].replace("<file>", xml).replace("cd /repo", f"cd {repo}")
    env = dict(os.environ)
    env.pop("FORMULAIC_VERIF", None)
    if repo != "/repo":
        env["PYTHONPATH"] = repo
    p = subprocess.run(cmd, shell=True, capture_output=True, text=True, env=env)
    tree = ET.parse(xml)
passed = set()
for tc in tree.iter("testcase"):
    bad = any(ch.tag in ("failure", "error", "skipped") for ch in tc)
    name = f"{tc.get('classname')}::{tc.get('name')}"
    if not bad:
        passed.add(name)
want = set(base["stable_pass"])
missing = sorted(want - passed)
print(f"stable_pass={len(want)} passing_now={len(want & passed)} newly_passing_outside_list={len(passed - want)}")
for m in missing[:20]:
    print("NOT PASSING:", m)
print(p.stdout.strip().splitlines()[-1] if p.stdout.strip() else "")
sys.exit(1 if missing else 0)

"""MANIFEST.setup_cmd: nothing to build; prove the offline environment has what the checks need."""
import importlib
import os
import sys

for m in ("numpy", "pandas", "scipy", "pyarrow", "narwhals", "wrapt", "interface_meta"):
    importlib.import_module(m)
sys.path.insert(0, os.environ.get("FORMULAIC_SRC", "/repo"))
import formulaic  # noqa: E402

print("formulaic from", formulaic.__file__)
for d in ("evidence", "replays"):
    os.makedirs(os.path.join(os.path.dirname(os.path.dirname(os.path.abspath(__file__))), d), exist_ok=True)
print("setup ok")

#!/bin/bash
# Full self-test: no-alarm on the unchanged tree (quick tier), determinism, sensitivity on own and seeded mutants.
cd "$(dirname "$0")/.."
echo "== no-alarm (quick tier, unchanged tree)"
for p in C04 C09 C18 C19; do ./check $p --tier quick --no-evidence; echo "exit=$?"; done
echo "== determinism"
./selftest/determinism.py
echo "== sensitivity: own mutants"
./selftest/sensitivity.py --baseline
echo "== sensitivity: seeded (sub-agent) mutants"
./selftest/sensitivity.py --dir seeded

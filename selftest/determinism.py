#!/venv/bin/python
"""Determinism self-test: the event log of every run must be a function of the run seed only.

Each property's batch is executed several times with different driver hash seeds, different per-chunk
worker hash seeds (--salt), different worker counts and chunk sizes (so runs have different in-process
predecessors); all per-run event-log digests must agree.  Usage: determinism.py [C04 C09 C18 C19] [--runs N]
"""
import json
import os
import subprocess
import sys
import tempfile

HERE = os.path.dirname(os.path.dirname(os.path.abspath(__file__)))
props = [a for a in sys.argv[1:] if a.startswith("C")] or ["C04", "C09", "C18", "C19"]
runs = int(sys.argv[sys.argv.index("--runs") + 1]) if "--runs" in sys.argv else None
DEFAULT = {"C04": 400, "C09": 400, "C18": 120, "C19": 6000}
CONFIGS = [
    {"hs": "0", "salt": 0, "workers": 16, "chunkdiv": 16},
    {"hs": "1", "salt": 1, "workers": 5, "chunkdiv": 7},
    {"hs": "12345", "salt": 2, "workers": 16, "chunkdiv": 29},
    {"hs": "0", "salt": 0, "workers": 16, "chunkdiv": 16},
]
bad = 0
for p in props:
    n = runs or DEFAULT[p]
    logs = []
    for cfg in CONFIGS:
        with tempfile.NamedTemporaryFile(suffix=".json", delete=False) as f:
            out = f.name
        env = dict(os.environ, PYTHONHASHSEED=cfg["hs"])
        cmd = [os.path.join(HERE, "check"), p, "--runs", str(n), "--logs", "--out", out, "--no-evidence", "--no-shrink", "--quiet",
               "--salt", str(cfg["salt"]), "--workers", str(cfg["workers"]), "--chunk", str(max(1, n // cfg["chunkdiv"])), "--budget", "3000"]
        cp = subprocess.run(cmd, env=env, capture_output=True, text=True, cwd=HERE)
        if cp.returncode not in (0, 1):
            print(p, "harness error", cp.stderr[-2000:])
            bad += 1
        logs.append(json.load(open(out)))
        os.unlink(out)
    base = logs[0]
    for i, lg in enumerate(logs[1:], 1):
        diff = [k for k in base if lg.get(k) != base[k]] + [k for k in lg if k not in base]
        print(f"{p}: config {i} vs 0: runs={len(base)} differing={len(diff)} {diff[:8]}")
        bad += len(diff)
print("DETERMINISM", "OK" if bad == 0 else f"FAILED ({bad})")
sys.exit(1 if bad else 0)

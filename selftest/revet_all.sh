#!/bin/bash
# Re-vet every seeded mutant against /repo HEAD: patch applies, demo fails with it and passes without it, pinned suite passes.
cd "$(dirname "$0")/.."
S=$(mktemp -d -p ${TMPDIR:-/tmp} formulaic-revet-XXXX); rmdir $S
git -C /repo worktree add -q --detach $S HEAD
bad=0
for d in seeded/*/; do
  n=$(basename $d)
  if grep -q '"status": "neutralised"' $d/meta.json; then echo "$n neutralised (skipped)"; continue; fi
  git -C $S checkout -q -- . ; git -C $S reset -q --hard
  PYTHONPATH=$S /venv/bin/python $PWD/$d/demo.py >/dev/null 2>&1; w0=$?
  if ! git -C $S apply $PWD/$d/patch.diff 2>/dev/null; then echo "$n NOAPPLY"; bad=1; continue; fi
  (cd $S && PYTHONPATH=$S timeout 600 /venv/bin/python $OLDPWD/$d/demo.py >/dev/null 2>&1); w1=$?
  b=$(FORMULAIC_SRC=$S ./selftest/baseline.py 2>/dev/null | head -1)
  ok="OK"; [ $w0 -ne 0 ] && ok="BAD(demo fails without patch)"; [ $w1 -eq 0 ] && ok="BAD(demo passes with patch)"; echo "$b" | grep -q "passing_now=463" || ok="BAD(suite)"
  [ "$ok" != "OK" ] && bad=1
  echo "$n without=$w0 with=$w1 $ok"
done
git -C /repo worktree remove --force $S
echo "REVET bad=$bad"
exit $bad

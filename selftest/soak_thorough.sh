#!/bin/bash
# Thorough-tier no-alarm soak for the given properties and seeds: soak_thorough.sh "C04 C09" "41 42 43"
cd "$(dirname "$0")/.."
rc=0
for s in ${2:-41 42}; do
  for p in ${1:-C04 C09}; do
    VERIF_SEED=$s ./check $p --tier thorough --no-evidence | cut -c1-260; e=${PIPESTATUS[0]}; echo "thorough seed=$s $p exit=$e"; [ $e -ne 0 ] && rc=1
  done
done
echo "SOAK-THOROUGH rc=$rc"; exit $rc
